#![no_main]
use libfuzzer_sys::fuzz_target;

fuzz_target!(|data: &[u8]| {
    vharness::fuzzrun::fuzz_entry("fuzz_open", data);
});
