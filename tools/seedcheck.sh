#!/bin/bash
# tools/seedcheck.sh <seed-id> <worktree> <prop> [<prop>...] : confirm a seeded change and run checks against it
set -u
ID=$1; WT=$2; shift 2
OUT=/verif/seeded/$ID; mkdir -p $OUT
cp $WT/patch.diff $OUT/patch.diff
cp $WT/NOTES.md $OUT/NOTES.md 2>/dev/null
DEMO=$(cd $WT && ls tests/demo_seeded.rs examples/*.rs 2>/dev/null | head -1)
mkdir -p $OUT/demo && cp $WT/$DEMO $OUT/demo/
echo "== confirm in worktree $WT (demo: $DEMO)"
cd $WT
# no `git stash` here: the stash is shared by all worktrees of /repo
git diff -- src/ > /tmp/seed-$ID.now.diff
git checkout -- src/
BASE_DEMO=$(cargo test --offline --features zlib,lz4,zstd,rayon --test demo_seeded 2>&1 | grep -E "^test result" | head -1)
git apply /tmp/seed-$ID.now.diff
WITH_DEMO=$(cargo test --offline --features zlib,lz4,zstd,rayon --test demo_seeded 2>&1 | grep -E "^test result" | head -1)
mv tests/demo_seeded.rs /tmp/demo_seeded.$ID.rs
SUITE=$(cargo test --offline --features zlib,lz4,zstd,rayon 2>&1 | grep -E "^test result" | tr '\n' ' ')
mv /tmp/demo_seeded.$ID.rs tests/demo_seeded.rs
echo "demo without change: $BASE_DEMO"
echo "demo with change:    $WITH_DEMO"
echo "suite with change:   $SUITE"
cd /verif
git -C /repo apply --check $OUT/patch.diff || { echo "patch does not apply to /repo"; exit 2; }
git -C /repo apply $OUT/patch.diff
RES=""
for P in "$@"; do
  T0=$(date +%s)
  R=$(./check $P ${TIER:-quick} 2>&1 | grep -E "^(VIOLATION|OK|INCONCLUSIVE|  signature)" | head -3 | tr '\n' ' ')
  echo "check $P: $R ($(( $(date +%s) - T0 ))s)"
  RES="$RES $P: $R;"
done
git -C /repo checkout -- .
python3 - "$ID" "$BASE_DEMO" "$WITH_DEMO" "$SUITE" "$RES" "$@" <<'PY'
import json,sys
id,base,withc,suite,res=sys.argv[1:6]; props=sys.argv[6:]
p=f'/verif/seeded/{id}/meta.json'
try: m=json.load(open(p))
except Exception: m={}
m.update({"id":id,"breaks_property":m.get("breaks_property",props[0]),"demo_without_change":base,"demo_with_change":withc,"existing_suite_with_change":suite,
 "checks_run":res.strip(),"how_run":"tools/seedcheck.sh: demo run in the agent's worktree with and without the src change; patch applied to /repo with git apply, ./check <prop> quick, git checkout -- ."})
json.dump(m,open(p,'w'),indent=1)
PY
