#!/usr/bin/env python3
"""Sensitivity runs: apply each mutant of /verif/mutants/table.py to /repo's working tree (string replacement),
run the quick tier of the listed properties, restore the tree. Usage:
    tools/mut.py [--tests] [--only ID[,ID..]] [--prop C03] [--tier quick]
Results are appended to /verif/mutants/results.jsonl. /repo must be clean before and is clean after."""
import json, subprocess, sys, time, os, argparse
sys.path.insert(0, '/verif/mutants')
from table import MUTANTS

def sh(cmd, **kw):
    return subprocess.run(cmd, shell=True, capture_output=True, text=True, **kw)

def main():
    ap = argparse.ArgumentParser()
    ap.add_argument('--tests', action='store_true', help='also run the repository test-suite on each mutant')
    ap.add_argument('--only')
    ap.add_argument('--prop')
    ap.add_argument('--tier', default='quick')
    a = ap.parse_args()
    if sh('git -C /repo status --porcelain --untracked-files=no').stdout.strip():
        print('/repo is not clean'); sys.exit(2)
    only = set(a.only.split(',')) if a.only else None
    out = open('/verif/mutants/results.jsonl', 'a')
    for m in MUTANTS:
        if only and m['id'] not in only: continue
        props = m['props']
        if a.prop:
            if a.prop not in props: continue
            props = [a.prop]
        edits = m.get('edits') or [(m['file'], m['old'], m['new'])]
        bad = False
        for (f, old, new) in edits:
            src = open('/repo/' + f).read()
            if src.count(old) != 1:
                print(f"{m['id']}: pattern in {f} occurs {src.count(old)} times, skipped"); bad = True; break
            open('/repo/' + f, 'w').write(src.replace(old, new))
        if bad:
            sh('git -C /repo checkout -- .'); continue
        try:
            rec = {'id': m['id'], 'control': m.get('control', False), 'desc': m['desc'], 'results': {}}
            if a.tests:
                t = sh('cd /repo && cargo test --workspace --no-fail-fast --offline 2>&1 | grep -E "^test result" | head -1')
                rec['tests'] = t.stdout.strip()
            for p in props:
                t0 = time.time()
                r = sh(f'cd /verif && ./check {p} {a.tier} 2>&1 | grep -E "^(VIOLATION|OK|INCONCLUSIVE|  signature)" | head -3')
                lines = r.stdout.strip().splitlines()
                verdict = 'VIOLATION' if any(l.startswith('VIOLATION') for l in lines) else ('OK' if any(l.startswith('OK') for l in lines) else 'OTHER')
                sig = next((l.strip() for l in lines if 'signature' in l), '')
                rec['results'][p] = {'verdict': verdict, 'sig': sig, 'secs': round(time.time() - t0, 1)}
                expect = 'OK' if m.get('control') else 'VIOLATION'
                flag = '' if verdict == expect else '   <<<<<< UNEXPECTED'
                print(f"{m['id']:34s} {p} {verdict:9s} {sig[:70]} ({rec['results'][p]['secs']}s){flag}", flush=True)
            out.write(json.dumps(rec) + '\n'); out.flush()
        finally:
            sh('git -C /repo checkout -- .')
    sh('git -C /repo checkout -- .')

main()
