#!/usr/bin/env python3
"""Regenerates /verif/MANIFEST.json from the table below (kept next to the code so the two stay in step)."""
import json, subprocess, sys

HOOK_COMMITS = ["a1b4636", "007f7ba", "2c32722"]

# id -> (level category, technique, level text, level note, design ref)
P = {
 "C01": ("exploration", "property-based testing (proptest): generated configurations x entry sets, round-trip oracle against the inserted list",
         "Every generated (codec, level, block size, interval, index levels) x entry set is written and read back; count, codec, version, forward scan, backward scan, first and last are compared with the inserted list. Sampled, not exhaustive: a round trip over an unbounded input space can only be explored.",
         "Trusted: proptest, the five compression crates, std::io::Cursor. Compression levels are generated inside each codec's documented range; zstd levels above 12 only with small files.", "5 C01"),
 "C02": ("exploration", "property-based testing (proptest) with per-file exhaustive probe alphabet; oracle = ceiling/floor/exact of a sorted-vector reference model",
         "For files up to 150 entries every key-order equivalence class of probes (each key, each gap, before-first, after-last) is sought with GE/LE/EQ on a fresh and on a reset cursor and compared with the model; larger files use 300 sampled classes. The files themselves are sampled.",
         "Trusted: the reference model (partition_point on a sorted Vec). Probe classes are complete with respect to byte-string order, which is all the code compares.", "5 C02"),
 "C03": ("exploration", "stateful / model-based testing: exhaustive breadth-first exploration of reachable cursor states per generated file + random operation histories, judged by a position-machine model",
         "(a) For each generated small deep file all reachable (cursor fingerprint, model position) states x all operations of a complete alphabet are executed and compared with the model (BFS to fixpoint, shortest counterexample histories); clone independence is checked on every transition. (b) 200-operation run-biased histories on larger files. Exhaustive per explored file only.",
         "Needs hook H3 (read-only fingerprint) for (a); (b) is hook-free. Relative moves after a None are executed but not judged, as the property leaves them unspecified.", "5 C03, 6.1"),
 "C04": ("exploration", "property-based testing (proptest): generated files x bound pairs, oracle = filter over the reference model (both directions)",
         "Forward and reverse range iterators are compared with a model filter for all 9 bound-kind pairs over independent probes, with dedicated generators for equal, inverted, adjacent, stored, absent and out-of-span bounds.",
         "Trusted: the model filter. Iteration is compared up to the iterator's first None, as the property states.", "5 C04"),
 "C05": ("exploration", "property-based testing (proptest): generated files x prefixes, oracle = starts_with filter over the reference model (both directions)",
         "Forward and reverse prefix iterators are compared with a starts_with filter; generators force empty, all-FF, FF-terminated prefixes and prefixes whose successor string is itself a stored key.",
         "Trusted: the model filter; key generators concentrate on a five-letter alphabet {00,01,7f,fe,ff} to make prefix relations dense.", "5 C05"),
 "C09": ("exploration", "differential testing against an independent format decoder and the frozen grenad 0.4.7 (both directions), inputs from proptest generators",
         "Each generated file is decoded by a decoder written from the format description (shares no code with the tree) with every structural check on, read by grenad 0.4.7, and the same entries written by 0.4.7 are read by the current reader (scans + seek alphabet).",
         "Trusted: snap, flate2, lz4_flex, zstd for decompression; grenad 0.4.7 as published. 0.4.7's writer is not driven with index_levels=255.", "5 C09, 4.3"),
 "C10": ("exploration", "property-based testing (proptest): metamorphic V2->V1 re-encoding by an independent trailer encoder; oracle = reference model and the V2 original",
         "Single-level files are re-encoded with a 21-byte V1 trailer built independently; version/count/codec, both scans, the seek alphabet, ranges and prefixes must equal the model and the answers of the V2 original.",
         "V1 files are synthesised (no historical V1 writer is available offline); the block format is identical in both versions.", "5 C10"),
 "C13": ("fault_enumeration", "exhaustive crash-point (truncation) and single-byte trailer corruption enumeration per generated file + generated structured byte strings; oracle = independent trailer predicate",
         "For every generated finished file ALL truncation lengths and ALL 255 alternative values of each trailer byte are opened; plus structured synthetic strings and raw bytes. Reader::new must succeed iff an independent predicate finds a complete trailer, never panic, and report the parsed fields. Enumeration is complete per file; files are sampled.",
         "Crash model: a crash leaves a prefix of the finished byte stream (any length). Trusted: the independent predicate in fmtdec::parse_trailer.", "5 C13"),
 "C14": ("exploration", "exhaustive enumeration of the 2^32 length domain (thorough) / boundary windows + strided sweep (quick) against an independent LEB128 codec; boundary-length entries round-tripped through the API",
         "thorough enumerates every u32 length through the real codec (hook H2) and sets exhaustive=true; quick covers every value within 2^16 of each framing boundary plus a seed-shifted stride-251 sweep. API level: all 121 pairings of boundary key/value lengths up to 2^21+1 (2^28+-1 in thorough) through Writer, Reader and the independent decoder.",
         "API-level lengths above 2^28+1 are not materialised. Hook H2 only re-exports the two codec functions.", "5 C14"),
 "C15": ("exploration", "property-based testing (proptest): generated files, validity predicate over the block table produced by the independent decoder",
         "For every emitted data block and every index block at depth >= 2 of every generated file: without its last entry (and the offset slot it opened) the block is below B, and a block that is not the last of its level reached B. Entry sizes are generated around B/3, B/2, B-1, B, 3B.",
         "Block sizes are measured on the decoder's uncompressed blocks; the lower inequality is the reading 'emitted as soon as it reaches B' (DESIGN 6.2).", "5 C15, 6.2"),
 "C18": ("exploration", "property-based testing (proptest): perturbed insert sequences under catch_unwind; oracle = (panic only on a non-ascending prefix) or (every block sorted per the independent decoder)",
         "Sorted lists are perturbed (swap, duplicate, equal keys, reversed runs, and a non-increasing key placed right after a block emission); either the writer panics at or after the first out-of-order insert, or the independent decoder finds every data and index block strictly ascending.",
         "A panic before the first out-of-order insert, or on sorted input, is reported as a violation too.", "5 C18"),
}

NOT_BUILT_REASON = "check not built yet in this snapshot; the design in DESIGN.md section 5 applies and the check is being added"

def main():
    props = [json.loads(l) for l in open('/verif/properties.jsonl')]
    checks, na = [], []
    for p in props:
        pid = p['id']
        if pid in P:
            cat, tech, text, note, ref = P[pid]
            checks.append({
                "property_id": pid,
                "quick_cmd": f"./check {pid} quick",
                "thorough_cmd": f"./check {pid} thorough",
                "evidence_file": f"/verif/evidence/{pid}.json",
                "replay_cmd_template": f"./check {pid} --replay {{path}}",
                "engine": "vharness",
                "level_claimed": {"category": cat, "text": text, "design_ref": ref},
                "level_note": note,
                "technique": tech,
            })
        else:
            na.append({"property_id": pid, "reason": NOT_BUILT_REASON})
    m = {
        "version": 1,
        "setup_cmd": "./check --setup",
        "hooks": {
            "guard": "--cfg grenad_verif",
            "enable": "harness/.cargo/config.toml sets rustflags = [\"--cfg\", \"grenad_verif\"]; grenad is a path dependency on /repo, so every ./check rebuilds from /repo's working tree with the hooks on",
            "baseline_off_cmd": "cd /repo && cargo test --workspace --no-fail-fast --offline",
            "source_commits": HOOK_COMMITS,
            "add_only": True,
        },
        "engines": [
            {"name": "vharness", "path": "/verif/harness", "serves_properties": sorted(P.keys()),
             "kind_free_text": "Rust crate: proptest TestRunner on 16 worker threads (seeded from VERIF_SEED), exhaustive enumerations, reference model, independent format decoder, instrumented I/O, evidence writer; binary vcheck"},
        ],
        "checks": checks,
        "notes": "All checks: ./check <ID> <quick|thorough>; exit 0 held / 1 VIOLATION / 2 inconclusive. Known findings: /verif/known_findings.json.",
        "not_applicable": na,
    }
    json.dump(m, open('/verif/MANIFEST.json', 'w'), indent=1)
    print("wrote MANIFEST.json:", len(checks), "checks,", len(na), "not claimed")

main()
