#!/usr/bin/env python3
"""Regenerates /verif/MANIFEST.json from the table below (kept next to the code so the two stay in step)."""
import json, subprocess, sys

HOOK_COMMITS = ["a1b4636", "007f7ba", "2c32722"]

# id -> (level category, technique, level text, level note, design ref)
P = {
 "C01": ("exploration", "property-based testing (proptest): generated configurations x entry sets, round-trip oracle against the inserted list",
         "Every generated (codec, level, block size, interval, index levels) x entry set is written and read back; count, codec, version, forward scan, backward scan, first and last are compared with the inserted list. Sampled, not exhaustive: a round trip over an unbounded input space can only be explored.",
         "Trusted: proptest, the five compression crates, std::io::Cursor. Compression levels are generated inside each codec's documented range; zstd levels above 12 only with small files.", "5 C01"),
 "C02": ("exploration", "property-based testing (proptest) with per-file exhaustive probe alphabet + bounded-exhaustive small-scope enumeration (every key set over a tiny alphabet x every probe); oracle = ceiling/floor/exact of a sorted-vector reference model",
         "For files up to 150 entries every key-order equivalence class of probes (each key, each gap, before-first, after-last) is sought with GE/LE/EQ on a fresh and on a reset cursor and compared with the model; larger files use 300 sampled classes. The files themselves are sampled.",
         "Trusted: the reference model (partition_point on a sorted Vec). Probe classes are complete with respect to byte-string order, which is all the code compares.", "5 C02"),
 "C03": ("exploration", "stateful / model-based testing: exhaustive breadth-first exploration of reachable cursor states per generated file + random operation histories, judged by a position-machine model",
         "(a) For each generated small deep file all reachable (cursor fingerprint, model position) states x all operations of a complete alphabet are executed and compared with the model (BFS to fixpoint, shortest counterexample histories); clone independence is checked on every transition. (b) 200-operation run-biased histories on larger files; (c) the same on version-1 encodings; (d) histories on V2 and V1 encodings during which one read or seek of the source fails: errors are accepted from then on, every Ok result is still judged. Thorough adds a libFuzzer campaign (fuzz_cursor) with the same oracle in the target. Exhaustive per explored file only.",
         "Needs hook H3 (read-only fingerprint) for (a); (b) is hook-free. Relative moves after a None are executed but not judged, as the property leaves them unspecified.", "5 C03, 6.1"),
 "C04": ("exploration", "property-based testing (proptest): generated files x bound pairs + bounded-exhaustive small-scope enumeration (every key set over {00,ff} keys up to 2 bytes x every pair of bounds over strings up to 3 bytes, 3 layouts); oracle = filter over the reference model (both directions)",
         "Forward and reverse range iterators are compared with a model filter for all 9 bound-kind pairs over independent probes, with dedicated generators for equal, inverted, adjacent, stored, absent and out-of-span bounds.",
         "Trusted: the model filter. Iteration is compared up to the iterator's first None, as the property states.", "5 C04"),
 "C05": ("exploration", "property-based testing (proptest): generated files x prefixes + bounded-exhaustive small-scope enumeration (every key set over a tiny alphabet x every prefix); oracle = starts_with filter over the reference model (both directions)",
         "Forward and reverse prefix iterators are compared with a starts_with filter; generators force empty, all-FF, FF-terminated prefixes and prefixes whose successor string is itself a stored key.",
         "Trusted: the model filter; key generators concentrate on a five-letter alphabet {00,01,7f,fe,ff} to make prefix relations dense.", "5 C05"),
 "C06": ("exploration", "property-based testing (proptest): generated key universes x overlapping sources x merge functions with a call log + bounded-exhaustive enumeration of every key-to-source assignment over 3 keys x 3 sources; oracle = union model, exactly-once merge calls in source order",
         "0..8 sources drawn as random subsets of a key universe, each written with its own configuration and added as a fresh cursor or as a cursor that was moved around and then reset, are merged with four merge functions (owned and borrowed results); the call log proves one call per shared key with the values in the order the sources were added; write_into_stream_writer is read back.",
         "Merge functions used return a lone value unchanged, as the property requires. Trusted: BTreeMap union model.", "5 C06"),
 "C07": ("exploration", "property-based testing (proptest): generated insert sequences x sorter configurations (hooked small budgets, public API) + bounded-exhaustive enumeration of every insert sequence of length <= 7 (thorough 9) over 3 keys x 5 value sizes (4 spill rhythms + empty values) x max_nb_chunks 1..3 x stable/unstable x 4 merge functions; oracle = group-by-key model with insertion order, three exits compared",
         "Three identically fed sorters are drained through streaming, write_into_stream_writer and into_reader_cursors (merged by the harness); each must equal the model (stable: insertion order; unstable: permutation) for budgets of 256 B..1 MiB, realloc on/off, max_nb_chunks 1..25, 12 setter orders (chunk_creator first or last), tagged and raw (possibly empty) values, sequential/parallel, all chunk codecs, CursorVec/TempFile/instrumented chunk storage.",
         "Hook H1 shrinks budgets so that spills and chunk merges happen after tens of inserts; a public-API stage runs without hooks. rayon schedules are sampled, not enumerated.", "5 C07"),
 "C08": ("exploration", "property-based testing (proptest): long generated insert streams with an instrumented chunk creator; invariants checked after every insert",
         "After every insert: bytes inserted since the last spill <= 2x budget (realloc) / <= budget (no realloc); live chunks <= max_nb_chunks+2 at every create and after the final flush; spilled data implies create() calls. Hooked budgets 256 B..16 KiB plus the real 10 MiB clamp with 40..80 MiB inserted; the builder's setters, chunk_creator included, are called in 12 different orders.",
         "Domain: entry <= budget/4, initial capacity <= budget (DESIGN 6.5). 'Unbounded' volume is sampled up to 80 MiB / 20 000 inserts.", "5 C08, 6.5"),
 "C09": ("exploration", "differential testing against an independent format decoder and the frozen grenad 0.4.7 (both directions), inputs from proptest generators",
         "Each generated file is decoded by a decoder written from the format description (shares no code with the tree) with every structural check on, read by grenad 0.4.7, and the same entries written by 0.4.7 are read by the current reader (scans + seek alphabet).",
         "Trusted: snap, flate2, lz4_flex, zstd for decompression; grenad 0.4.7 as published. 0.4.7's writer is not driven with index_levels=255.", "5 C09, 4.3"),
 "C10": ("exploration", "property-based testing (proptest): metamorphic V2->V1 re-encoding by an independent trailer encoder; oracle = reference model and the V2 original",
         "Single-level files are re-encoded with a 21-byte V1 trailer built independently; version/count/codec, both scans, the seek alphabet, ranges, prefixes and a 120-operation history on one cursor must equal the model and the answers of the V2 original.",
         "V1 files are synthesised (no historical V1 writer is available offline); the block format is identical in both versions.", "5 C10"),
 "C11": ("exploration", "metamorphic property-based testing (proptest): every scenario re-run over instrumented I/O driven by a generated schedule tape (partial transfers, ErrorKind::Interrupted); oracle = byte/result equality with the plain run",
         "Writer bytes into a splitting/interrupting sink equal two plain runs; reader scans/seeks/histories/ranges/prefixes, merger output and sorter output over splitting/interrupting sources and chunk storage equal the plain results, for all codecs.",
         "Interrupted is injected on read/write only; a short transfer moves >= 1 byte. Schedules are generated tapes of 1..64 bytes consumed cyclically.", "5 C11, 4.4"),
 "C12": ("fault_enumeration", "exhaustive single-fault injection: for each generated scenario every k-th call of every component kind (write, flush, read, seek, create, merge) fails once; oracle judges every public call",
         "A fault-free run counts component calls; then every position of every kind is failed in turn (error kinds cycled, including write returning Ok(0)). Each public call must be Ok iff no component failed during it, never panic, and the failing call must return Io with the injected ErrorKind or Merge with the injected value. Complete over fault positions per scenario; scenarios are sampled.",
         "Single faults only; the scenario stops after the failing call. Payload identity is recorded, not judged (DESIGN 6.4).", "5 C12, 6.4"),
 "C13": ("fault_enumeration", "exhaustive crash-point (truncation) and single-byte trailer corruption enumeration per generated file + generated structured byte strings; oracle = independent trailer predicate",
         "For every generated finished file ALL truncation lengths and ALL 255 alternative values of each trailer byte are opened; plus structured synthetic strings and raw bytes. Reader::new must succeed iff an independent predicate finds a complete trailer, never panic, and report the parsed fields. Enumeration is complete per file; files are sampled.",
         "Crash model: a crash leaves a prefix of the finished byte stream (any length). Trusted: the independent predicate in fmtdec::parse_trailer.", "5 C13"),
 "C14": ("exploration", "exhaustive enumeration of the 2^32 length domain (thorough) / boundary windows + strided sweep (quick) against an independent LEB128 codec; boundary-length entries round-tripped through the API",
         "thorough enumerates every u32 length through the real codec (hook H2) and sets exhaustive=true; quick covers every value within 2^16 of each framing boundary plus a seed-shifted stride-251 sweep. API level: all 121 pairings of boundary key/value lengths up to 2^21+1 (2^28+-1 in thorough) through Writer, Reader and the independent decoder.",
         "API-level lengths above 2^28+1 are not materialised. Hook H2 only re-exports the two codec functions.", "5 C14"),
 "C15": ("exploration", "property-based testing (proptest): generated files, validity predicate over the block table produced by the independent decoder",
         "For every emitted data block and every index block at depth >= 2 of every generated file: without its last entry (and the offset slot it opened) the block is below B, and a block that is not the last of its level reached B. Entry sizes are generated around B/3, B/2, B-1, B, 3B.",
         "Block sizes are measured on the decoder's uncompressed blocks; the lower inequality is the reading 'emitted as soon as it reaches B' (DESIGN 6.2).", "5 C15, 6.2"),
 "C16": ("exploration", "property-based testing (proptest) + exhaustive reachable-state exploration over an instrumented source that logs every seek and read per public call; oracle = load-count bound and read containment against the independent decoder's block map",
         "Files up to 60 000 entries / thousands of 1 KiB blocks with levels 0..6: Reader::new reads only the trailer; every operation of 200-step histories (and every state x operation of small deep files) does <= 2*(levels+2) block loads, seeks only to block starts and reads only inside the sought block.",
         "A load is counted both as a seek and as a read at a block start; the larger count is judged. File sizes are sampled up to 60 000 entries.", "5 C16"),
 "C17": ("exploration", "property-based testing (proptest) under a checking global allocator (guard bands, layout table, double-free, minimal alignment, leak over repeated runs) with overflow checks and debug assertions; thorough adds libFuzzer+ASan and Miri",
         "Insert-size sequences are aimed by a simulation of the buffer arithmetic at exact fits, 1..15 bytes left, 1..5 doublings and over-budget entries; a large-buffer stage lets the live buffer grow through 2..128 MiB with entries sized relative to the current buffer; every alloc/dealloc of the run is checked for layout equality, band integrity, double free, zero-size requests; reader paths (including a clone read after its original was dropped) run under the same allocator; content is checked by C07's oracle; a crash of the checking process is attributed to the case in flight and replayed in isolation.",
         "Dynamic detection on executed paths only: absence of UB is not established. ASan does not see layout mismatches (the checking allocator does); Miri cannot run zstd.", "5 C17, 4.5"),
 "C18": ("exploration", "property-based testing (proptest): perturbed insert sequences under catch_unwind + bounded-exhaustive enumeration of every insert sequence of length <= 5 (thorough 7) over five keys incl. the empty key, 3 layouts; oracle = (panic only on a non-ascending prefix) or (every block sorted per the independent decoder)",
         "Sorted lists are perturbed (swap, duplicate, equal keys, reversed runs, and a non-increasing key placed right after a block emission); either the writer panics at or after the first out-of-order insert, or the independent decoder finds every data and index block strictly ascending.",
         "A panic before the first out-of-order insert, or on sorted input, is reported as a violation too.", "5 C18"),
}

NOT_BUILT_REASON = "check not built yet in this snapshot; the design in DESIGN.md section 5 applies and the check is being added"

def main():
    props = [json.loads(l) for l in open('/verif/properties.jsonl')]
    checks, na = [], []
    for p in props:
        pid = p['id']
        if pid in P:
            cat, tech, text, note, ref = P[pid]
            checks.append({
                "property_id": pid,
                "quick_cmd": f"./check {pid} quick",
                "thorough_cmd": f"./check {pid} thorough",
                "evidence_file": f"/verif/evidence/{pid}.json",
                "replay_cmd_template": f"./check {pid} --replay {{path}}",
                "engine": "vharness",
                "level_claimed": {"category": cat, "text": text, "design_ref": ref},
                "level_note": note,
                "technique": tech,
            })
        else:
            na.append({"property_id": pid, "reason": NOT_BUILT_REASON})
    m = {
        "version": 1,
        "setup_cmd": "./check --setup",
        "hooks": {
            "guard": "--cfg grenad_verif",
            "enable": "harness/.cargo/config.toml sets rustflags = [\"--cfg\", \"grenad_verif\"]; grenad is a path dependency on /repo, so every ./check rebuilds from /repo's working tree with the hooks on",
            "baseline_off_cmd": "cd /repo && cargo test --workspace --no-fail-fast --offline",
            "source_commits": HOOK_COMMITS,
            "add_only": True,
        },
        "engines": [
            {"name": "vharness", "path": "/verif/harness", "serves_properties": sorted(P.keys()),
             "kind_free_text": "Rust crate: proptest TestRunner on 16 worker threads (seeded from VERIF_SEED), exhaustive enumerations (reachable cursor states, fault positions, truncations, 2^32 lengths), reference model, independent format decoder, instrumented I/O, checking global allocator, evidence writer; binary vcheck"},
            {"name": "vfuzz", "path": "/verif/fuzz", "serves_properties": ["C01", "C02", "C03", "C07", "C09", "C13", "C15", "C16", "C17", "C18"],
             "kind_free_text": "cargo-fuzz crate (libFuzzer, AddressSanitizer, nightly): fuzz_open, fuzz_cursor, fuzz_writer, fuzz_sorter decode bytes into structured cases (arbitrary::Unstructured) and run the same oracle as vharness for the property in VERIF_FOCUS; driven by vcheck in the thorough tier"},
            {"name": "vmiri", "path": "/verif/harness/src/bin/vmiri.rs", "serves_properties": ["C17"],
             "kind_free_text": "cases generated natively by the proptest generators, executed under cargo +nightly miri (thorough tier of C17)"},
        ],
        "checks": checks,
        "notes": "All checks: ./check <ID> <quick|thorough>; exit 0 held / 1 VIOLATION / 2 inconclusive (build failure, watchdog, generator health, fuzzer/Miri infrastructure). Known findings: /verif/known_findings.json (four fixed entries D1-D4, none open). Thorough tiers add libFuzzer+ASan campaigns (C01 C02 C03 C07 C09 C13 C15 C16 C17 C18), an exhaustive 2^32 sweep (C14) and a Miri stage (C17). Sensitivity: mutants/table.py + tools/mut.py; independently seeded changes: seeded/.",
        "not_applicable": na,
    }
    json.dump(m, open('/verif/MANIFEST.json', 'w'), indent=1)
    print("wrote MANIFEST.json:", len(checks), "checks,", len(na), "not claimed")

main()
