#!/usr/bin/env python3
"""Regenerates /verif/MANIFEST.json from the table below (kept next to the code so the two stay in step)."""
import json, subprocess, sys

HOOK_COMMITS = ["a1b4636", "007f7ba", "2c32722"]

# id -> (level category, technique, level text, level note, design ref)
P = {
 "C01": ("exploration", "property-based testing (proptest): generated configurations x entry sets, round-trip oracle against the inserted list",
         "Every generated (codec, level, block size, interval, index levels) x entry set is written and read back; count, codec, version, forward scan, backward scan, first and last are compared with the inserted list. Sampled, not exhaustive: a round trip over an unbounded input space can only be explored.",
         "Trusted: proptest, the five compression crates, std::io::Cursor. Compression levels are generated inside each codec's documented range; zstd levels above 12 only with small files.", "5 C01"),
}

NOT_BUILT_REASON = "check not built yet in this snapshot; the design in DESIGN.md section 5 applies and the check is being added"

def main():
    props = [json.loads(l) for l in open('/verif/properties.jsonl')]
    checks, na = [], []
    for p in props:
        pid = p['id']
        if pid in P:
            cat, tech, text, note, ref = P[pid]
            checks.append({
                "property_id": pid,
                "quick_cmd": f"./check {pid} quick",
                "thorough_cmd": f"./check {pid} thorough",
                "evidence_file": f"/verif/evidence/{pid}.json",
                "replay_cmd_template": f"./check {pid} --replay {{path}}",
                "engine": "vharness",
                "level_claimed": {"category": cat, "text": text, "design_ref": ref},
                "level_note": note,
                "technique": tech,
            })
        else:
            na.append({"property_id": pid, "reason": NOT_BUILT_REASON})
    m = {
        "version": 1,
        "setup_cmd": "./check --setup",
        "hooks": {
            "guard": "--cfg grenad_verif",
            "enable": "harness/.cargo/config.toml sets rustflags = [\"--cfg\", \"grenad_verif\"]; grenad is a path dependency on /repo, so every ./check rebuilds from /repo's working tree with the hooks on",
            "baseline_off_cmd": "cd /repo && cargo test --workspace --no-fail-fast --offline",
            "source_commits": HOOK_COMMITS,
            "add_only": True,
        },
        "engines": [
            {"name": "vharness", "path": "/verif/harness", "serves_properties": sorted(P.keys()),
             "kind_free_text": "Rust crate: proptest TestRunner on 16 worker threads (seeded from VERIF_SEED), exhaustive enumerations, reference model, independent format decoder, instrumented I/O, evidence writer; binary vcheck"},
        ],
        "checks": checks,
        "notes": "All checks: ./check <ID> <quick|thorough>; exit 0 held / 1 VIOLATION / 2 inconclusive. Known findings: /verif/known_findings.json.",
        "not_applicable": na,
    }
    json.dump(m, open('/verif/MANIFEST.json', 'w'), indent=1)
    print("wrote MANIFEST.json:", len(checks), "checks,", len(na), "not claimed")

main()
