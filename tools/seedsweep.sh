#!/bin/bash
# tools/seedsweep.sh [lanes] : re-run EVERY kept seeded change against the quick tier of the checks that were recorded
# as catching it (meta.json: checks_run, else the property in the id). Lesson of C07-c/C07-f: a strengthening that
# rewrites generated inputs can make an older seed invisible again.
# Runs in N lanes, each with its own scratch worktree of /repo and its own copy of /verif (outside /repo and /verif),
# so /repo itself is never patched; lanes and their build output are removed at the end. Output: one line per seed.
set -u
LANES=${1:-4}
BASE=${SWEEP_BASE:-/tmp/seedsweep}
rm -rf $BASE; mkdir -p $BASE
ls -d /verif/seeded/*/ | xargs -n1 basename > $BASE/all.txt
for i in $(seq 0 $((LANES-1))); do
  L=$BASE/lane$i; mkdir -p $L
  git -C /repo worktree add --detach $L/repo HEAD >/dev/null 2>&1
  rsync -a --exclude target --exclude replays --exclude .git /verif/ $L/verif/
  sed -i "s#path = \"/repo\"#path = \"$L/repo\"#" $L/verif/harness/Cargo.toml
  cp /repo/Cargo.lock $L/repo/ 2>/dev/null
  awk -v n=$LANES -v i=$i 'NR%n==i' $BASE/all.txt > $L/todo.txt
  (
    cd $L/verif
    while read ID; do
      META=/verif/seeded/$ID/meta.json
      PROPS=$(python3 -c "
import json,re,sys
m=json.load(open('$META')); r=m.get('checks_run','')
# properties recorded as reporting it, else every property that was run, else the id's property
hit=re.findall(r'(C\d\d): VIOLATION',r); ps=hit or re.findall(r'(C\d\d):',r) or ['$ID'[:3]]
out=[]
[out.append(p) for p in ps if p not in out]
print(' '.join(out))")
      git -C $L/repo apply /verif/seeded/$ID/patch.diff 2>/dev/null || { echo "$ID APPLY-FAILED"; continue; }
      RES=""
      for P in $PROPS; do
        R=$(VERIF_THREADS=${SWEEP_THREADS:-6} ./check $P quick 2>&1 | grep -E "^(VIOLATION|OK|INCONCLUSIVE)" | head -1 | cut -d' ' -f1)
        RES="$RES $P=${R:-NONE}"
        [ "$R" = "VIOLATION" ] && break
      done
      git -C $L/repo checkout -- .
      echo "$ID$RES"
    done < $L/todo.txt
  ) > $L/out.txt 2>&1 &
done
wait
cat $BASE/lane*/out.txt | sort
for i in $(seq 0 $((LANES-1))); do git -C /repo worktree remove --force $BASE/lane$i/repo; done
git -C /repo worktree prune
rm -rf $BASE
