pub mod common;
pub mod fmtdec;
pub mod gen;
pub mod model;
pub mod props;
pub mod rd;
pub mod runner;
