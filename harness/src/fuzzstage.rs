//! Engine E3: runs a libFuzzer campaign (cargo-fuzz, nightly, AddressSanitizer) for one property in focus and
//! turns its outcome into counters, violations (with the artifact as replay file) or "inconclusive".

use std::path::{Path, PathBuf};
use std::process::Command;

use serde_json::{json, Value};

use crate::common::{catch, hash_of, Fail};
use crate::fuzzrun;
use crate::runner::{verif_dir, ExtraOut};

pub struct Campaign<'a> {
    pub id: &'a str,
    pub target: &'a str,
    pub runs_per_job: u64,
    pub jobs: usize,
    pub seed: u64,
    pub max_len: usize,
}

/// Runs the campaign and merges its outcome into `out`. Returns false when the stage was inconclusive.
pub fn run(c: &Campaign, out: &mut ExtraOut) -> bool {
    let work = PathBuf::from(verif_dir()).join("target/fuzzwork").join(format!("{}-{}", c.id, c.target));
    let _ = std::fs::remove_dir_all(&work);
    let corpus = work.join("corpus");
    let artifacts = work.join("artifacts");
    std::fs::create_dir_all(&corpus).unwrap();
    std::fs::create_dir_all(&artifacts).unwrap();
    let seeds = PathBuf::from(verif_dir()).join("fuzz/seeds").join(c.target);
    let mut cmd = Command::new("cargo");
    cmd.current_dir(&work)
        .env("VERIF_FOCUS", c.id)
        .env("RUSTFLAGS", "--cfg grenad_verif")
        .env("CARGO_NET_OFFLINE", "true")
        .env("ASAN_OPTIONS", "detect_leaks=1:abort_on_error=1")
        .args(["+nightly", "fuzz", "run", "--fuzz-dir"])
        .arg(format!("{}/fuzz", verif_dir()))
        .arg("--target-dir")
        .arg(format!("{}/target/fuzz", verif_dir()))
        .arg(c.target)
        .arg(&corpus)
        .arg(&seeds)
        .arg("--")
        .arg(format!("-runs={}", c.runs_per_job))
        // libFuzzer treats seed 0 as "random"
        .arg(format!("-seed={}", c.seed + 1))
        .arg("-len_control=0")
        .arg(format!("-max_len={}", c.max_len))
        .arg(format!("-artifact_prefix={}/", artifacts.display()))
        .arg("-print_final_stats=1")
        .arg("-timeout=120")
        .arg("-rss_limit_mb=6000");
    if c.jobs > 1 {
        cmd.arg(format!("-jobs={}", c.jobs)).arg(format!("-workers={}", c.jobs));
    }
    let output = match cmd.output() {
        Ok(o) => o,
        Err(e) => {
            eprintln!("INCONCLUSIVE: cannot start cargo fuzz: {e}");
            return false;
        }
    };
    let mut log = String::from_utf8_lossy(&output.stderr).to_string();
    log.push_str(&String::from_utf8_lossy(&output.stdout));
    if let Ok(rd) = std::fs::read_dir(&work) {
        for e in rd.flatten() {
            let p = e.path();
            if p.file_name().and_then(|n| n.to_str()).map_or(false, |n| n.starts_with("fuzz-") && n.ends_with(".log")) {
                log.push_str(&std::fs::read_to_string(&p).unwrap_or_default());
            }
        }
    }
    let _ = std::fs::write(work.join("campaign.log"), &log);
    let execs: u64 = log
        .lines()
        .filter_map(|l| l.strip_prefix("stat::number_of_executed_units:"))
        .filter_map(|v| v.trim().parse::<u64>().ok())
        .sum();
    let corpus_units = std::fs::read_dir(&corpus).map(|d| d.count()).unwrap_or(0);
    out.evaluations += execs;
    out.counters.insert(format!("fuzz_execs:{}", c.target), execs);
    out.counters.insert(format!("fuzz_corpus_units:{}", c.target), corpus_units as u64);
    // coverage-increasing inputs found beyond the seeds are, by construction, distinct and non-trivial for the fuzzer
    out.nontrivial += corpus_units as u64;
    out.samples.push(json!({"kind": "libfuzzer-campaign", "target": c.target, "focus": c.id, "execs": execs, "jobs": c.jobs,
        "new_corpus_units": corpus_units, "seed": c.seed + 1}));

    // libFuzzer also drops `slow-unit-*` files there (inputs slower than its reporting threshold): not failures
    let all: Vec<PathBuf> = std::fs::read_dir(&artifacts).map(|d| d.flatten().map(|e| e.path()).filter(|p| p.is_file()).collect()).unwrap_or_default();
    let name_of = |p: &PathBuf| p.file_name().and_then(|n| n.to_str()).unwrap_or("").to_string();
    let slow = all.iter().filter(|p| name_of(p).starts_with("slow-unit-")).count();
    out.counters.insert(format!("fuzz_slow_units:{}", c.target), slow as u64);
    let arts: Vec<PathBuf> = all.into_iter().filter(|p| !name_of(p).starts_with("slow-unit-")).collect();
    if arts.is_empty() {
        if !output.status.success() && execs == 0 {
            eprintln!("INCONCLUSIVE: fuzz campaign {} failed to run (see {}/campaign.log)", c.target, work.display());
            let tail: Vec<&str> = log.lines().rev().take(15).collect();
            for l in tail.iter().rev() {
                eprintln!("  | {l}");
            }
            return false;
        }
        return true;
    }
    let mut conclusive = true;
    for a in arts {
        let data = std::fs::read(&a).unwrap_or_default();
        let name = a.file_name().and_then(|n| n.to_str()).unwrap_or("");
        let verdict = match catch(|| fuzzrun::run(c.target, c.id, &data)) {
            Ok(r) => r,
            Err(p) => Err(Fail::new("harness:panic", p)),
        };
        let dest = Path::new(verif_dir()).join("replays");
        let _ = std::fs::create_dir_all(&dest);
        match verdict {
            Err(f) => {
                let path = dest.join(format!("{}-{}-{:012x}.bin", c.id, c.target, hash_of(&data) & 0xffff_ffff_ffff));
                let _ = std::fs::copy(&a, &path);
                out.violations.push((f, Value::String(format!("@bin:{}", path.display()))));
            }
            Ok(()) => {
                // the oracle is satisfied outside the sanitizer build: a sanitizer / timeout / OOM report
                let asan = log.contains("ERROR: AddressSanitizer") || log.contains("ERROR: LeakSanitizer");
                if asan && c.id == "C17" && !name.starts_with("timeout") && !name.starts_with("oom") {
                    let path = dest.join(format!("{}-{}-{:012x}.bin", c.id, c.target, hash_of(&data) & 0xffff_ffff_ffff));
                    let _ = std::fs::copy(&a, &path);
                    let line = log.lines().find(|l| l.contains("ERROR: AddressSanitizer") || l.contains("ERROR: LeakSanitizer")).unwrap_or("");
                    out.violations.push((Fail::new("c17:asan", format!("sanitizer report under fuzzing: {line}")), Value::String(format!("@bin:{}", path.display()))));
                } else {
                    eprintln!("INCONCLUSIVE: fuzz artifact {} does not fail the {} oracle outside the fuzz build (timeout/OOM/sanitizer report for another property)", a.display(), c.id);
                    conclusive = false;
                }
            }
        }
    }
    conclusive
}
