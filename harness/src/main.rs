use vharness::gen::Tier;
use vharness::props;
use vharness::runner::{replay, run_property, Prop};

fn dispatch<P: Prop>(p: P, args: &[String]) -> i32 {
    match args.get(1).map(|s| s.as_str()) {
        Some("--replay") => match args.get(2) {
            Some(path) => replay(&p, path),
            None => {
                eprintln!("--replay needs a path");
                2
            }
        },
        Some("quick") | None => run_property(&p, Tier::Quick),
        Some("thorough") => run_property(&p, Tier::Thorough),
        Some(o) => {
            eprintln!("unknown tier {o}");
            2
        }
    }
}

#[global_allocator]
static ALLOC: vharness::alloccheck::Checking = vharness::alloccheck::Checking;

fn main() {
    vharness::alloccheck::mark_installed();
    let args: Vec<String> = std::env::args().skip(1).collect();
    vharness::common::install_panic_hook();
    let id = args.first().map(|s| s.as_str()).unwrap_or("");
    // vcheck <ID> --replay-bytes <target> <file> : replay a fuzzer artifact through the same oracle
    if args.get(1).map(|s| s.as_str()) == Some("--replay-bytes") {
        let (Some(target), Some(path)) = (args.get(2), args.get(3)) else {
            eprintln!("--replay-bytes needs <target> <file>");
            std::process::exit(2);
        };
        let data = std::fs::read(path).unwrap_or_else(|e| {
            eprintln!("cannot read {path}: {e}");
            std::process::exit(2)
        });
        let r = match vharness::common::catch(|| vharness::fuzzrun::run(target, id, &data)) {
            Ok(r) => r,
            Err(p) => Err(vharness::common::Fail::new("harness:panic", p)),
        };
        match r {
            Ok(()) => {
                println!("REPLAY-OK property={id} file={path}");
                std::process::exit(0)
            }
            Err(f) => {
                println!("VIOLATION property={id} replay={path}");
                println!("  signature: {}", f.signature);
                println!("  {}", f.msg);
                std::process::exit(1)
            }
        }
    }
    if id == "C17" && args.get(1).map(|s| s.as_str()) == Some("--giant-buffer") {
        std::process::exit(props::c17::giant_buffer_main());
    }
    if id == "seeds" {
        let d = format!("{}/fuzz/seeds", vharness::runner::verif_dir());
        vharness::seeds::write_all(args.get(1).map(|s| s.as_str()).unwrap_or(&d));
        std::process::exit(0);
    }
    let code = match id {
        "C01" => dispatch(props::c01::C01, &args),
        "C02" => dispatch(props::c02::C02, &args),
        "C03" => dispatch(props::c03::C03, &args),
        "C04" => dispatch(props::c04::C04, &args),
        "C05" => dispatch(props::c05::C05, &args),
        "C06" => dispatch(props::c06::C06, &args),
        "C07" => dispatch(props::c07::C07, &args),
        "C08" => dispatch(props::c08::C08, &args),
        "C09" => dispatch(props::c09::C09, &args),
        "C10" => dispatch(props::c10::C10, &args),
        "C11" => dispatch(props::c11::C11, &args),
        "C12" => dispatch(props::c12::C12, &args),
        "C13" => dispatch(props::c13::C13, &args),
        "C14" => dispatch(props::c14::C14, &args),
        "C15" => dispatch(props::c15::C15, &args),
        "C16" => dispatch(props::c16::C16, &args),
        "C17" => dispatch(props::c17::C17, &args),
        "C18" => dispatch(props::c18::C18, &args),
        _ => {
            eprintln!("usage: vcheck <C01..C18> <quick|thorough> | vcheck <ID> --replay <file>");
            2
        }
    };
    std::process::exit(code);
}
