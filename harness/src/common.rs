//! Shared vocabulary: blobs, entries, writer configurations, panic capture, hashing.

use std::cell::RefCell;
use std::collections::BTreeMap;
use std::hash::{Hash, Hasher};
use std::num::NonZeroUsize;
use std::panic::{self, AssertUnwindSafe};
use std::sync::Once;

use serde::{Deserialize, Serialize};

pub type Entry = (Vec<u8>, Vec<u8>);
pub type Entries = Vec<Entry>;

pub const MAGIC_V1: u32 = 0x76324D4C;
pub const MAGIC_V2: u32 = 0x6723D4C4;

// ---------------------------------------------------------------------------------------------
// hex (de)serialisation of byte strings so that replay files stay readable

pub mod hexv {
    use serde::{Deserialize, Deserializer, Serializer};

    pub fn to_hex(b: &[u8]) -> String {
        let mut s = String::with_capacity(b.len() * 2);
        for x in b {
            s.push_str(&format!("{:02x}", x));
        }
        s
    }

    pub fn from_hex(s: &str) -> Result<Vec<u8>, String> {
        if s.len() % 2 != 0 {
            return Err("odd hex length".into());
        }
        (0..s.len())
            .step_by(2)
            .map(|i| u8::from_str_radix(&s[i..i + 2], 16).map_err(|e| e.to_string()))
            .collect()
    }

    pub fn serialize<S: Serializer>(v: &Vec<u8>, s: S) -> Result<S::Ok, S::Error> {
        s.serialize_str(&to_hex(v))
    }

    pub fn deserialize<'de, D: Deserializer<'de>>(d: D) -> Result<Vec<u8>, D::Error> {
        let s = String::deserialize(d)?;
        from_hex(&s).map_err(serde::de::Error::custom)
    }
}

/// Short printable form of a byte string for samples and messages.
pub fn brief(b: &[u8]) -> String {
    if b.len() <= 24 {
        format!("x{}", hexv::to_hex(b))
    } else {
        format!("x{}..({}B)..{}", hexv::to_hex(&b[..8]), b.len(), hexv::to_hex(&b[b.len() - 4..]))
    }
}

// ---------------------------------------------------------------------------------------------
// Blob: a compact, shrinkable description of a byte string

#[derive(Clone, Debug, PartialEq, Eq, Hash, Serialize, Deserialize)]
pub enum Blob {
    /// literal bytes
    Lit(#[serde(with = "hexv")] Vec<u8>),
    /// `fill` repeated `n` times followed by `tail`
    Pad {
        fill: u8,
        n: u32,
        #[serde(with = "hexv")]
        tail: Vec<u8>,
    },
    /// `n` pseudo-random bytes, a pure function of `seed` (incompressible content)
    Rand { n: u32, seed: u64 },
    /// `pad` filler bytes followed by something that looks like a grenad trailer
    Trailer { pad: u16, v2: bool, codec: u8, count: u64 },
}

pub fn splitmix(state: &mut u64) -> u64 {
    *state = state.wrapping_add(0x9E3779B97F4A7C15);
    let mut z = *state;
    z = (z ^ (z >> 30)).wrapping_mul(0xBF58476D1CE4E5B9);
    z = (z ^ (z >> 27)).wrapping_mul(0x94D049BB133111EB);
    z ^ (z >> 31)
}

impl Blob {
    pub fn bytes(&self) -> Vec<u8> {
        match self {
            Blob::Lit(v) => v.clone(),
            Blob::Pad { fill, n, tail } => {
                let mut v = vec![*fill; *n as usize];
                v.extend_from_slice(tail);
                v
            }
            Blob::Rand { n, seed } => {
                let mut st = *seed;
                let mut v = Vec::with_capacity(*n as usize + 8);
                while v.len() < *n as usize {
                    v.extend_from_slice(&splitmix(&mut st).to_le_bytes());
                }
                v.truncate(*n as usize);
                v
            }
            Blob::Trailer { pad, v2, codec, count } => {
                let mut v = vec![0xAB; *pad as usize];
                v.extend_from_slice(&0u64.to_le_bytes());
                v.push(*codec);
                v.extend_from_slice(&count.to_le_bytes());
                if *v2 {
                    v.push(0);
                    v.extend_from_slice(&MAGIC_V2.to_le_bytes());
                } else {
                    v.extend_from_slice(&MAGIC_V1.to_le_bytes());
                }
                v
            }
        }
    }

    pub fn len(&self) -> usize {
        match self {
            Blob::Lit(v) => v.len(),
            Blob::Pad { n, tail, .. } => *n as usize + tail.len(),
            Blob::Rand { n, .. } => *n as usize,
            Blob::Trailer { pad, v2, .. } => *pad as usize + if *v2 { 22 } else { 21 },
        }
    }
}

// ---------------------------------------------------------------------------------------------
// Codec and writer configuration

#[derive(Clone, Copy, Debug, PartialEq, Eq, Hash, PartialOrd, Ord, Serialize, Deserialize)]
pub enum Codec {
    None,
    SnappyPre05,
    Zlib,
    Lz4,
    Zstd,
    Snappy,
}

impl Codec {
    pub const ALL: [Codec; 6] =
        [Codec::None, Codec::SnappyPre05, Codec::Zlib, Codec::Lz4, Codec::Zstd, Codec::Snappy];

    pub fn id(self) -> u8 {
        match self {
            Codec::None => 0,
            Codec::SnappyPre05 => 1,
            Codec::Zlib => 2,
            Codec::Lz4 => 3,
            Codec::Zstd => 4,
            Codec::Snappy => 5,
        }
    }

    pub fn from_id(id: u8) -> Option<Codec> {
        Codec::ALL.iter().copied().find(|c| c.id() == id)
    }

    pub fn g5(self) -> grenad::CompressionType {
        use grenad::CompressionType as C;
        match self {
            Codec::None => C::None,
            Codec::SnappyPre05 => C::SnappyPre05,
            Codec::Zlib => C::Zlib,
            Codec::Lz4 => C::Lz4,
            Codec::Zstd => C::Zstd,
            Codec::Snappy => C::Snappy,
        }
    }

    pub fn g4(self) -> grenad04::CompressionType {
        use grenad04::CompressionType as C;
        match self {
            Codec::None => C::None,
            Codec::SnappyPre05 => C::SnappyPre05,
            Codec::Zlib => C::Zlib,
            Codec::Lz4 => C::Lz4,
            Codec::Zstd => C::Zstd,
            Codec::Snappy => C::Snappy,
        }
    }

    pub fn of_g5(c: grenad::CompressionType) -> Codec {
        Codec::from_id(c as u8).unwrap()
    }

    pub fn name(self) -> &'static str {
        match self {
            Codec::None => "none",
            Codec::SnappyPre05 => "snappy-pre05",
            Codec::Zlib => "zlib",
            Codec::Lz4 => "lz4",
            Codec::Zstd => "zstd",
            Codec::Snappy => "snappy",
        }
    }
}

#[derive(Clone, Debug, PartialEq, Eq, Hash, Serialize, Deserialize)]
pub struct WConf {
    pub codec: Codec,
    pub level: u32,
    /// `None` = leave the builder's default (8192)
    pub block_size: Option<usize>,
    /// `None` = leave the builder's default (8)
    pub interval: Option<usize>,
    pub levels: u8,
}

impl WConf {
    pub fn plain() -> WConf {
        WConf { codec: Codec::None, level: 0, block_size: None, interval: None, levels: 0 }
    }

    pub fn builder(&self) -> grenad::WriterBuilder {
        let mut b = grenad::Writer::builder();
        b.compression_type(self.codec.g5());
        b.compression_level(self.level);
        if let Some(bs) = self.block_size {
            b.block_size(bs);
        }
        if let Some(i) = self.interval {
            b.index_key_interval(NonZeroUsize::new(i.max(1)).unwrap());
        }
        b.index_levels(self.levels);
        b
    }

    pub fn builder04(&self) -> grenad04::WriterBuilder {
        let mut b = grenad04::Writer::builder();
        b.compression_type(self.codec.g4());
        b.compression_level(self.level);
        if let Some(bs) = self.block_size {
            b.block_size(bs);
        }
        if let Some(i) = self.interval {
            b.index_key_interval(NonZeroUsize::new(i.max(1)).unwrap());
        }
        b.index_levels(self.levels);
        b
    }

    /// Block size the writer is specified to use.
    pub fn eff_block(&self) -> usize {
        self.block_size.unwrap_or(8192).max(1024)
    }

    pub fn eff_interval(&self) -> usize {
        self.interval.unwrap_or(8).max(1)
    }

    pub fn label(&self) -> String {
        format!(
            "{}:l{} bs={:?} iv={:?} lv={}",
            self.codec.name(),
            self.level,
            self.block_size,
            self.interval,
            self.levels
        )
    }
}

// ---------------------------------------------------------------------------------------------
// Entry sources

#[derive(Clone, Debug, PartialEq, Eq, Hash, Serialize, Deserialize)]
pub enum EntrySrc {
    /// explicit list; keys are de-duplicated (last wins) and sorted on materialisation
    List(Vec<(Blob, Blob)>),
    /// `n` entries, key = `pad` bytes of `fill` ‖ BE32(start + i*stride); values follow `vlen`/`vkind`
    Counter { start: u32, stride: u32, n: u32, pad: u16, fill: u8, vlen: u16, vkind: u8 },
}

impl EntrySrc {
    /// Sorted, distinct entries.
    pub fn entries(&self) -> Entries {
        match self {
            EntrySrc::List(l) => {
                let mut m = BTreeMap::new();
                for (k, v) in l {
                    m.insert(k.bytes(), v.bytes());
                }
                m.into_iter().collect()
            }
            EntrySrc::Counter { start, stride, n, pad, fill, vlen, vkind } => {
                let mut m = BTreeMap::new();
                let stride = (*stride).max(1) as u64;
                for i in 0..*n as u64 {
                    let c = *start as u64 + i * stride;
                    if c > u32::MAX as u64 {
                        break;
                    }
                    let mut k = vec![*fill; *pad as usize];
                    k.extend_from_slice(&(c as u32).to_be_bytes());
                    let v = counter_val(i, *vlen, *vkind);
                    m.insert(k, v);
                }
                m.into_iter().collect()
            }
        }
    }

    pub fn approx_n(&self) -> usize {
        match self {
            EntrySrc::List(l) => l.len(),
            EntrySrc::Counter { n, .. } => *n as usize,
        }
    }
}

pub fn counter_val(i: u64, vlen: u16, vkind: u8) -> Vec<u8> {
    match vkind % 4 {
        0 => {
            // the index itself, padded/truncated to vlen
            let mut v = i.to_be_bytes().to_vec();
            v.resize(vlen as usize, 0x11);
            v
        }
        1 => vec![(i % 251) as u8; vlen as usize],
        2 => Blob::Rand { n: vlen as u32, seed: i ^ 0xdead_beef }.bytes(),
        _ => {
            // varying length 0..=vlen
            let l = if vlen == 0 { 0 } else { (i * 7919) % (vlen as u64 + 1) };
            Blob::Rand { n: l as u32, seed: i }.bytes()
        }
    }
}

#[derive(Clone, Debug, PartialEq, Eq, Hash, Serialize, Deserialize)]
pub struct FileSpec {
    pub conf: WConf,
    pub src: EntrySrc,
}

// ---------------------------------------------------------------------------------------------
// Failure type

#[derive(Clone, Debug)]
pub struct Fail {
    /// short stable classification used to match known findings
    pub signature: String,
    pub msg: String,
}

impl Fail {
    pub fn new(signature: impl Into<String>, msg: impl Into<String>) -> Fail {
        Fail { signature: signature.into(), msg: msg.into() }
    }
}

pub type Check<T = ()> = Result<T, Fail>;

#[macro_export]
macro_rules! fail {
    ($sig:expr, $($arg:tt)*) => {
        return Err($crate::common::Fail::new($sig, format!($($arg)*)))
    };
}

#[macro_export]
macro_rules! ensure {
    ($cond:expr, $sig:expr, $($arg:tt)*) => {
        if !($cond) {
            return Err($crate::common::Fail::new($sig, format!($($arg)*)));
        }
    };
}

// ---------------------------------------------------------------------------------------------
// Panic capture

thread_local! {
    static LAST_PANIC: RefCell<Option<String>> = const { RefCell::new(None) };
    static QUIET: RefCell<bool> = const { RefCell::new(false) };
}

static HOOK: Once = Once::new();

pub fn install_panic_hook() {
    HOOK.call_once(|| {
        let default = panic::take_hook();
        panic::set_hook(Box::new(move |info| {
            let loc = info.location().map(|l| format!("{}:{}", l.file(), l.line())).unwrap_or_default();
            let msg = if let Some(s) = info.payload().downcast_ref::<&str>() {
                s.to_string()
            } else if let Some(s) = info.payload().downcast_ref::<String>() {
                s.clone()
            } else {
                "<non-string panic>".to_string()
            };
            LAST_PANIC.with(|p| *p.borrow_mut() = Some(format!("{} @ {}", msg, loc)));
            if !QUIET.with(|q| *q.borrow()) {
                default(info);
            }
        }));
    });
}

/// Runs `f`, turning a panic into `Err(description)`. Panic output is suppressed.
pub fn catch<R>(f: impl FnOnce() -> R) -> Result<R, String> {
    install_panic_hook();
    let prev = QUIET.with(|q| std::mem::replace(&mut *q.borrow_mut(), true));
    LAST_PANIC.with(|p| *p.borrow_mut() = None);
    let r = panic::catch_unwind(AssertUnwindSafe(f));
    QUIET.with(|q| *q.borrow_mut() = prev);
    r.map_err(|_| LAST_PANIC.with(|p| p.borrow_mut().take()).unwrap_or_else(|| "panic".into()))
}

/// Keeps only the stable part of a panic description (location without line numbers is too
/// coarse, the message without data is what we want).
pub fn panic_sig(desc: &str) -> String {
    let loc = desc.rsplit(" @ ").next().unwrap_or("");
    let file = loc.rsplit('/').next().unwrap_or(loc);
    let file = file.split(':').next().unwrap_or(file);
    let msg: String = desc.split(" @ ").next().unwrap_or("").chars().take(40).collect();
    let msg: String =
        msg.chars().map(|c| if c.is_ascii_alphanumeric() { c } else { '_' }).collect();
    format!("panic:{}:{}", file, msg)
}

// ---------------------------------------------------------------------------------------------
// Hashing

pub fn hash_of<T: Hash>(t: &T) -> u64 {
    let mut h = Fnv(0xcbf29ce484222325);
    t.hash(&mut h);
    h.finish()
}

pub struct Fnv(pub u64);

impl Hasher for Fnv {
    fn finish(&self) -> u64 {
        self.0
    }
    fn write(&mut self, bytes: &[u8]) {
        for b in bytes {
            self.0 ^= *b as u64;
            self.0 = self.0.wrapping_mul(0x100000001b3);
        }
    }
}

// ---------------------------------------------------------------------------------------------
// Writing a file with the current writer

/// Writes `entries` with `conf` into memory. A panic or an error is a failure with the given
/// property-independent signature prefix.
pub fn write_file(conf: &WConf, entries: &[Entry]) -> Check<Vec<u8>> {
    let r = catch(|| -> std::io::Result<Vec<u8>> {
        let mut w = conf.builder().memory();
        for (k, v) in entries {
            w.insert(k, v)?;
        }
        w.into_inner()
    });
    match r {
        Ok(Ok(bytes)) => Ok(bytes),
        Ok(Err(e)) => Err(Fail::new(
            format!("write:err:{:?}", e.kind()),
            format!("writer returned an error on valid input ({}): {}", conf.label(), e),
        )),
        Err(p) => Err(Fail::new(
            format!("write:{}", panic_sig(&p)),
            format!("writer panicked on valid input ({}): {}", conf.label(), p),
        )),
    }
}

/// Monotone index mapping (shrinks toward the front).
pub fn pick(i: u16, len: usize) -> usize {
    if len == 0 {
        0
    } else {
        ((i as usize) * len) >> 16
    }
}
