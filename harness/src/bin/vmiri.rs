//! Engine E4: a slice of C17's cases executed under Miri:
//!   cargo +nightly miri run --bin vmiri -- <cases.json> <idx> <total>
//! The cases are generated natively by `vcheck miri-cases` from the same proptest generators and seed; this
//! binary only deserialises and executes them, so Miri's time goes into grenad, not into the generators.
//! Miri is the oracle for misaligned references, reads of uninitialised buffer bytes, out-of-bounds accesses,
//! provenance and layout errors; the content oracle still runs.

use vharness::props::c17;

fn main() {
    let a: Vec<String> = std::env::args().skip(1).collect();
    let file = a.first().expect("cases file");
    let idx: usize = a.get(1).and_then(|s| s.parse().ok()).unwrap_or(0);
    let total: usize = a.get(2).and_then(|s| s.parse().ok()).unwrap_or(1);
    let text = std::fs::read_to_string(file).expect("cannot read cases");
    let cases: Vec<c17::Case> = serde_json::from_str(&text).expect("bad cases file");
    let mut done = 0;
    for (i, case) in cases.iter().enumerate() {
        if i % total != idx {
            continue;
        }
        println!("MIRI-CASE {i}");
        if let Err(f) = c17::run_plain(case) {
            println!("MIRI-ORACLE-FAIL case={i} {}: {}", f.signature, f.msg);
            std::process::exit(3);
        }
        done += 1;
    }
    println!("MIRI-DONE cases={done}");
}
