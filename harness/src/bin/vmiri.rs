//! Engine E4: a slice of C17's cases executed under Miri (`cargo +nightly miri run --bin vmiri -- <seed> <idx> <n>`).
//! Miri is the oracle for misaligned references, reads of uninitialised buffer bytes, out-of-bounds accesses,
//! provenance and layout errors; the content oracle still runs. Cases come from the same proptest generators.

use proptest::test_runner::{Config, RngSeed, TestCaseError, TestRunner};
use vharness::props::c17;

fn main() {
    let a: Vec<u64> = std::env::args().skip(1).filter_map(|s| s.parse().ok()).collect();
    let (seed, idx, n) = (a.first().copied().unwrap_or(0), a.get(1).copied().unwrap_or(0), a.get(2).copied().unwrap_or(4));
    let mut runner = TestRunner::new(Config {
        cases: n as u32,
        failure_persistence: None,
        rng_seed: RngSeed::Fixed(seed.wrapping_mul(7919).wrapping_add(idx).wrapping_add(0x6d69_7269)),
        max_shrink_iters: 0,
        ..Config::default()
    });
    let done = std::cell::Cell::new(0u64);
    let r = runner.run(&c17::miri_case(), |case| {
        match c17::run_plain(&case) {
            Ok(()) => {
                done.set(done.get() + 1);
                Ok(())
            }
            Err(f) => Err(TestCaseError::fail(format!("{}: {}", f.signature, f.msg))),
        }
    });
    match r {
        Ok(()) => println!("MIRI-DONE cases={}", done.get()),
        Err(e) => {
            println!("MIRI-ORACLE-FAIL {e}");
            std::process::exit(3);
        }
    }
}
