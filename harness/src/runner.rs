//! The generic engine E1: proptest `TestRunner`s on worker threads, statistics, evidence, replay
//! files, known findings, exit codes.

use std::cell::RefCell;
use std::collections::{BTreeMap, HashSet};
use std::fmt::Debug;
use std::path::{Path, PathBuf};
use std::sync::atomic::{AtomicBool, Ordering};
use std::sync::Mutex;
use std::time::Instant;

use proptest::strategy::{BoxedStrategy, Strategy};
use proptest::test_runner::{Config, RngSeed, TestCaseError, TestError, TestRunner};
use serde::de::DeserializeOwned;
use serde::{Deserialize, Serialize};
use serde_json::{json, Value};

use crate::common::{catch, hash_of, panic_sig, Check, Fail};
use crate::gen::Tier;

/// Root of the verification tree: `/verif`, or the directory of the `check` script that started us (so that a
/// snapshot started with `vp run` keeps its build output, evidence and replays to itself).
pub fn verif_dir() -> &'static str {
    static D: std::sync::OnceLock<String> = std::sync::OnceLock::new();
    D.get_or_init(|| std::env::var("VERIF_ROOT").ok().filter(|s| !s.is_empty()).unwrap_or_else(|| "/verif".to_string()))
}

/// What a case reports about itself.
#[derive(Default, Debug, Clone)]
pub struct Obs {
    pub nontrivial: bool,
    /// labels for the class histogram (generator health)
    pub classes: Vec<String>,
    /// additive counters (sub-evaluations, states, transitions, ...)
    pub counters: BTreeMap<String, u64>,
    /// hashes of distinct non-trivial sub-cases, when a case contains many (e.g. file × probe)
    pub sub_nontrivial: Vec<u64>,
    /// a short rendering of the case for `samples`
    pub sample: Option<Value>,
}

impl Obs {
    pub fn class(&mut self, c: impl Into<String>) {
        self.classes.push(c.into());
    }
    pub fn add(&mut self, k: &str, n: u64) {
        *self.counters.entry(k.to_string()).or_insert(0) += n;
    }
}

pub trait Prop: Sync {
    type Case: Clone + Debug + Serialize + DeserializeOwned + std::hash::Hash + Send + 'static;

    fn id(&self) -> &'static str;
    fn level(&self) -> &'static str {
        "exploration"
    }
    /// (strategy, number of cases) stages for the tier; stages run one after the other
    fn stages(&self, tier: Tier) -> Vec<Stage<Self::Case>>;
    fn run(&self, case: &Self::Case, obs: &mut Obs) -> Check;
    fn rule(&self) -> String;
    fn assumptions(&self) -> Vec<String> {
        vec![]
    }
    /// minimum counts per class (generator health); a miss makes the run inconclusive (exit 2)
    fn health(&self, _tier: Tier) -> Vec<(&'static str, u64)> {
        vec![]
    }
    /// extra, non-proptest stages (exhaustive enumerations); returns counters and violations
    fn extra(&self, _tier: Tier, _seed: u64, _ctx: &ExtraCtx) -> ExtraOut {
        ExtraOut::default()
    }
    fn exhaustive(&self, _tier: Tier) -> bool {
        false
    }
    /// libFuzzer campaigns of the thorough tier: (target, runs per job); 8 jobs each
    fn fuzz_targets(&self) -> Vec<(&'static str, u64)> {
        vec![]
    }
}

pub struct Stage<C> {
    pub name: &'static str,
    pub strategy: BoxedStrategy<C>,
    pub cases: u32,
    /// shrinking budget (iterations); expensive cases use a small one
    pub shrink: u32,
}

impl<C> Stage<C> {
    pub fn shrink(mut self, n: u32) -> Self {
        self.shrink = n;
        self
    }
}

#[derive(Default)]
pub struct ExtraOut {
    pub evaluations: u64,
    pub nontrivial: u64,
    pub counters: BTreeMap<String, u64>,
    pub samples: Vec<Value>,
    pub violations: Vec<(Fail, Value)>,
    pub exhaustive: Option<bool>,
    /// a stage could not be completed (tool failure, timeout): the run exits 2 unless a violation was found
    pub inconclusive: bool,
}

pub struct ExtraCtx {
    pub threads: usize,
}

#[derive(Deserialize, Clone, Debug)]
pub struct KnownFinding {
    pub property: String,
    pub status: String,
    pub signature: String,
    #[serde(default)]
    pub commit: Option<String>,
    pub description: String,
}

pub fn load_known() -> Vec<KnownFinding> {
    let p = Path::new(verif_dir()).join("known_findings.json");
    match std::fs::read_to_string(&p) {
        Ok(s) => {
            #[derive(Deserialize)]
            struct F {
                findings: Vec<KnownFinding>,
            }
            serde_json::from_str::<F>(&s).map(|f| f.findings).unwrap_or_else(|e| {
                eprintln!("known_findings.json unreadable: {e}");
                std::process::exit(2)
            })
        }
        Err(_) => vec![],
    }
}

#[derive(Default)]
struct Stats {
    evaluations: u64,
    nontrivial: HashSet<u64>,
    classes: BTreeMap<String, u64>,
    counters: BTreeMap<String, u64>,
    samples: Vec<Value>,
    known_hits: BTreeMap<String, u64>,
}

impl Stats {
    fn merge(&mut self, o: Stats) {
        self.evaluations += o.evaluations;
        self.nontrivial.extend(o.nontrivial);
        for (k, v) in o.classes {
            *self.classes.entry(k).or_insert(0) += v;
        }
        for (k, v) in o.counters {
            *self.counters.entry(k).or_insert(0) += v;
        }
        for s in o.samples {
            if self.samples.len() < 5 {
                self.samples.push(s);
            }
        }
        for (k, v) in o.known_hits {
            *self.known_hits.entry(k).or_insert(0) += v;
        }
    }
}

pub struct Violation {
    pub fail: Fail,
    pub case_json: Value,
}

pub fn seed_from_env() -> u64 {
    std::env::var("VERIF_SEED").ok().and_then(|s| s.trim().parse::<i64>().ok()).unwrap_or(0) as u64
}

pub fn threads() -> usize {
    std::env::var("VERIF_THREADS")
        .ok()
        .and_then(|s| s.parse().ok())
        .unwrap_or_else(|| std::thread::available_parallelism().map(|n| n.get()).unwrap_or(8).min(16))
}

fn scale() -> f64 {
    std::env::var("VERIF_SCALE").ok().and_then(|s| s.parse().ok()).unwrap_or(1.0)
}

/// Runs one property; returns the process exit code.
pub fn run_property<P: Prop>(p: &P, tier: Tier) -> i32 {
    let t0 = Instant::now();
    let seed = seed_from_env();
    let known: Vec<KnownFinding> =
        load_known().into_iter().filter(|k| k.property == p.id() && k.status == "open").collect();
    let nthreads = threads();
    let stop = AtomicBool::new(false);
    let total = Mutex::new(Stats::default());
    let violations: Mutex<Vec<Violation>> = Mutex::new(Vec::new());

    let stage_cases: Vec<(u32, u32)> = p.stages(tier).iter().map(|s| (s.cases, s.shrink)).collect();
    for (stage_no, (cases, shrink_iters)) in stage_cases.into_iter().enumerate() {
        let cases = ((cases as f64) * scale()).ceil() as u32;
        let per = cases.div_ceil(nthreads as u32).max(1);
        std::thread::scope(|s| {
            for w in 0..nthreads {
                let (stop, total, violations, known) = (&stop, &total, &violations, &known);
                std::thread::Builder::new()
                    .stack_size(64 << 20)
                    .spawn_scoped(s, move || {
                        // strategies are not `Send`: every worker builds its own
                        let strategy = p.stages(tier).into_iter().nth(stage_no).unwrap().strategy;
                        let wseed = seed
                            .wrapping_mul(0x9E3779B97F4A7C15)
                            .wrapping_add(((stage_no as u64) << 32) | w as u64)
                            .wrapping_add(hash_of(&p.id()));
                        let mut runner = TestRunner::new(Config {
                            cases: per,
                            failure_persistence: None,
                            rng_seed: RngSeed::Fixed(wseed),
                            max_shrink_iters: shrink_iters,
                            max_shrink_time: 120_000,
                            verbose: 0,
                            ..Config::default()
                        });
                        let stats = RefCell::new(Stats::default());
                        let failed = RefCell::new(false);
                        // the case being executed is kept on disk so that a crash of the whole process (abort, SIGSEGV:
                        // memory unsafety, non-unwinding panic) can be attributed and replayed by `check`
                        let inflight = std::env::var("VERIF_INFLIGHT").ok().map(|d| PathBuf::from(d).join(format!("{}-{}.json", p.id(), w)));
                        let res = runner.run(&strategy, |case| {
                            if stop.load(Ordering::Relaxed) && !*failed.borrow() {
                                return Ok(());
                            }
                            if let Some(f) = &inflight {
                                if let Ok(j) = serde_json::to_vec(&case) {
                                    let _ = std::fs::write(f, j);
                                }
                            }
                            let mut obs = Obs::default();
                            let t_case = Instant::now();
                            let r = match catch(|| p.run(&case, &mut obs)) {
                                Ok(r) => r,
                                Err(pm) => Err(Fail::new(
                                    format!("harness:{}", panic_sig(&pm)),
                                    format!("unexpected panic outside a guarded call: {pm}"),
                                )),
                            };
                            let took = t_case.elapsed().as_secs_f64();
                            if took > 2.0 {
                                obs.add("slow_cases(>2s)", 1);
                                if std::env::var("VERIF_SLOW").is_ok() {
                                    eprintln!("slow case {:.1}s: {}", took, obs.sample.as_ref().map(|s| s.to_string()).unwrap_or_default());
                                }
                            }
                            match r {
                                Ok(()) => {
                                    if !*failed.borrow() {
                                        let mut st = stats.borrow_mut();
                                        st.evaluations += 1;
                                        if obs.nontrivial {
                                            st.nontrivial.insert(hash_of(&case));
                                        }
                                        for h in obs.sub_nontrivial {
                                            st.nontrivial.insert(h);
                                        }
                                        for c in obs.classes {
                                            *st.classes.entry(c).or_insert(0) += 1;
                                        }
                                        for (k, v) in obs.counters {
                                            *st.counters.entry(k).or_insert(0) += v;
                                        }
                                        if obs.nontrivial && st.samples.len() < 3 {
                                            if let Some(s) = obs.sample {
                                                st.samples.push(s);
                                            }
                                        }
                                    }
                                    Ok(())
                                }
                                Err(f) => {
                                    if let Some(k) = known.iter().find(|k| f.signature.starts_with(&k.signature)) {
                                        let mut st = stats.borrow_mut();
                                        *st.known_hits.entry(k.signature.clone()).or_insert(0) += 1;
                                        return Ok(());
                                    }
                                    if !*failed.borrow() {
                                        // the failing case was evaluated too
                                        stats.borrow_mut().evaluations += 1;
                                    }
                                    *failed.borrow_mut() = true;
                                    Err(TestCaseError::fail(format!("{}\u{1}{}", f.signature, f.msg)))
                                }
                            }
                        });
                        total.lock().unwrap().merge(stats.into_inner());
                        if let Some(f) = &inflight {
                            let _ = std::fs::remove_file(f);
                        }
                        match res {
                            Ok(()) => {}
                            Err(TestError::Fail(reason, case)) => {
                                stop.store(true, Ordering::Relaxed);
                                let r = reason.message().to_string();
                                let (sig, msg) = r.split_once('\u{1}').unwrap_or(("unknown", &r));
                                violations.lock().unwrap().push(Violation {
                                    fail: Fail::new(sig, msg),
                                    case_json: serde_json::to_value(&case).unwrap_or(Value::Null),
                                });
                            }
                            Err(TestError::Abort(reason)) => {
                                eprintln!("proptest aborted: {reason}");
                                violations.lock().unwrap().push(Violation {
                                    fail: Fail::new("harness:abort", reason.message().to_string()),
                                    case_json: Value::Null,
                                });
                            }
                        }
                    })
                    .unwrap();
            }
        });
        if stop.load(Ordering::Relaxed) {
            break;
        }
    }

    let mut stats = total.into_inner().unwrap();
    let mut violations = violations.into_inner().unwrap();

    // extra (exhaustive) stages
    let mut exhaustive = p.exhaustive(tier);
    if violations.is_empty() {
        let mut ex = p.extra(tier, seed, &ExtraCtx { threads: nthreads });
        if tier == Tier::Thorough && ex.violations.is_empty() {
            let scale_runs = std::env::var("VERIF_FUZZ_RUNS").ok().and_then(|s| s.parse::<f64>().ok()).unwrap_or(1.0);
            for (target, runs) in p.fuzz_targets() {
                let c = crate::fuzzstage::Campaign {
                    id: p.id(),
                    target,
                    runs_per_job: ((runs as f64) * scale_runs).ceil() as u64,
                    jobs: 8,
                    seed,
                    max_len: 4096,
                };
                if !crate::fuzzstage::run(&c, &mut ex) {
                    ex.inconclusive = true;
                }
                if !ex.violations.is_empty() {
                    break;
                }
            }
        }
        stats.evaluations += ex.evaluations;
        for (k, v) in ex.counters {
            *stats.counters.entry(k).or_insert(0) += v;
        }
        // extra stages report their own distinct non-trivial count
        let extra_nt = ex.nontrivial;
        for s in ex.samples {
            if stats.samples.len() < 6 {
                stats.samples.push(s);
            }
        }
        if let Some(e) = ex.exhaustive {
            exhaustive = e;
        }
        for (fail, case_json) in ex.violations {
            if let Some(k) = known.iter().find(|k| fail.signature.starts_with(&k.signature)) {
                *stats.known_hits.entry(k.signature.clone()).or_insert(0) += 1;
            } else {
                violations.push(Violation { fail, case_json });
            }
        }
        stats.counters.insert("extra_distinct_nontrivial".into(), extra_nt);
        if ex.inconclusive {
            stats.counters.insert("inconclusive_stage".into(), 1);
        }
    }

    finish(p.id(), p.level(), tier, seed, t0, stats, violations, &known, p.rule(), p.assumptions(), p.health(tier), exhaustive)
}

#[allow(clippy::too_many_arguments)]
fn finish(
    id: &str,
    level: &str,
    tier: Tier,
    seed: u64,
    t0: Instant,
    stats: Stats,
    violations: Vec<Violation>,
    known: &[KnownFinding],
    rule: String,
    assumptions: Vec<String>,
    health: Vec<(&'static str, u64)>,
    exhaustive: bool,
) -> i32 {
    let extra_nt = stats.counters.get("extra_distinct_nontrivial").copied().unwrap_or(0);
    let distinct = stats.nontrivial.len() as u64 + extra_nt;
    let mut samples = stats.samples.clone();
    if samples.is_empty() {
        samples.push(json!("no non-trivial sample captured"));
    }
    // de-duplicate violations by signature, keep the first of each
    let mut seen = HashSet::new();
    let mut reported = Vec::new();
    for v in violations {
        if seen.insert(v.fail.signature.clone()) {
            reported.push(v);
        }
    }
    let mut coverage = json!({
        "evaluations": stats.evaluations,
        "distinct_nontrivial": distinct,
        "rule": rule,
        "samples": samples,
        "classes": stats.classes,
        "counters": stats.counters,
        "known_finding_hits": stats.known_hits,
        "threads": threads(),
    });
    if exhaustive {
        coverage["exhaustive"] = json!(true);
    }
    if let Some(s) = stats.counters.get("states") {
        coverage["states"] = json!(s);
    }
    if let Some(s) = stats.counters.get("transitions") {
        coverage["transitions"] = json!(s);
    }
    let ev = json!({
        "property_id": id,
        "tier": tier.name(),
        "seed": seed as i64,
        "level": level,
        "coverage": coverage,
        "assumptions": assumptions,
        "wall_s": t0.elapsed().as_secs_f64(),
        "violations": reported.len(),
    });
    let evdir = Path::new(verif_dir()).join("evidence");
    let _ = std::fs::create_dir_all(&evdir);
    std::fs::write(evdir.join(format!("{id}.json")), serde_json::to_string_pretty(&ev).unwrap())
        .expect("cannot write evidence");

    for k in known {
        if stats.known_hits.get(&k.signature).copied().unwrap_or(0) > 0 {
            println!("KNOWN-FINDING: property={} {}", id, k.description);
        }
    }
    if !reported.is_empty() {
        let rdir = Path::new(verif_dir()).join("replays");
        let _ = std::fs::create_dir_all(&rdir);
        for v in &reported {
            let h = hash_of(&(v.fail.signature.clone(), v.case_json.to_string()));
            let mut path: PathBuf = rdir.join(format!("{id}-{:012x}.json", h & 0xffff_ffff_ffff));
            if let Some(bin) = v.case_json.as_str().and_then(|s| s.strip_prefix("@bin:")) {
                // a fuzzer artifact already saved as the replay file
                path = PathBuf::from(bin);
            } else {
                let body = json!({"property": id, "signature": v.fail.signature, "message": v.fail.msg, "case": v.case_json});
                let _ = std::fs::write(&path, serde_json::to_string_pretty(&body).unwrap());
            }
            println!("VIOLATION property={} replay={}", id, path.display());
            println!("  signature: {}", v.fail.signature);
            let m: String = v.fail.msg.chars().take(1200).collect();
            println!("  {}", m);
        }
        return 1;
    }
    // generator health
    let mut unhealthy = false;
    for (class, min) in health {
        let have = stats.classes.get(class).copied().or_else(|| stats.counters.get(class).copied()).unwrap_or(0);
        let min = ((min as f64) * scale().min(1.0)) as u64;
        if have < min {
            eprintln!("INCONCLUSIVE: class '{class}' has {have} cases, needs {min}: the generator must be fixed");
            unhealthy = true;
        }
    }
    if distinct < 2 {
        eprintln!("INCONCLUSIVE: fewer than two distinct non-trivial cases");
        unhealthy = true;
    }
    if stats.counters.get("inconclusive_stage").is_some() {
        eprintln!("INCONCLUSIVE: a stage of this run could not be completed");
        unhealthy = true;
    }
    println!(
        "OK property={} tier={} seed={} evaluations={} distinct_nontrivial={} wall={:.1}s",
        id,
        tier.name(),
        seed,
        stats.evaluations,
        distinct,
        t0.elapsed().as_secs_f64()
    );
    if unhealthy {
        2
    } else {
        0
    }
}

/// Replays one saved case in strict mode.
pub fn replay<P: Prop>(p: &P, path: &str) -> i32 {
    let s = match std::fs::read_to_string(path) {
        Ok(s) => s,
        Err(e) => {
            eprintln!("cannot read {path}: {e}");
            return 2;
        }
    };
    let v: Value = match serde_json::from_str(&s) {
        Ok(v) => v,
        Err(e) => {
            eprintln!("bad replay file: {e}");
            return 2;
        }
    };
    let case_v = v.get("case").cloned().unwrap_or(v);
    let case: P::Case = match serde_json::from_value(case_v) {
        Ok(c) => c,
        Err(e) => {
            eprintln!("replay case does not deserialize for {}: {e}", p.id());
            return 2;
        }
    };
    let mut obs = Obs::default();
    let r = match catch(|| p.run(&case, &mut obs)) {
        Ok(r) => r,
        Err(pm) => Err(Fail::new(format!("harness:{}", panic_sig(&pm)), pm)),
    };
    match r {
        Ok(()) => {
            println!("REPLAY-OK property={} file={}", p.id(), path);
            0
        }
        Err(f) => {
            println!("VIOLATION property={} replay={}", p.id(), path);
            println!("  signature: {}", f.signature);
            println!("  {}", f.msg);
            1
        }
    }
}

/// Helper for strategies
pub fn stage<C: Debug + 'static>(name: &'static str, s: impl Strategy<Value = C> + 'static, cases: u32) -> Stage<C> {
    Stage { name, strategy: s.boxed(), cases, shrink: 1500 }
}
