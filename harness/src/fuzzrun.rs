//! Entry points shared by the libFuzzer targets (fuzz/fuzz_targets/*.rs) and `vcheck --replay-bytes`.
//! Each decodes the byte string into a structured case and runs the SAME oracle as the proptest engine for
//! the property in focus (env VERIF_FOCUS), so the semantic oracle sits inside the fuzz target.

use std::sync::OnceLock;

use crate::bytescase;
use crate::common::{Check, Fail};
use crate::props::{c01, c02, c03, c09, c13, c15, c16, c18};
use crate::props::{c07, c17};
use crate::runner::{Obs, Prop};

pub fn focus() -> &'static str {
    static F: OnceLock<String> = OnceLock::new();
    F.get_or_init(|| std::env::var("VERIF_FOCUS").unwrap_or_default())
}

pub const TARGETS: [(&str, &[&str]); 4] = [
    ("fuzz_open", &["C13"]),
    ("fuzz_cursor", &["C02", "C03", "C16", "C17"]),
    ("fuzz_writer", &["C01", "C09", "C15", "C18"]),
    ("fuzz_sorter", &["C07", "C17"]),
];

pub fn run(target: &str, focus: &str, data: &[u8]) -> Check {
    let mut obs = Obs::default();
    match target {
        "fuzz_open" => c13::check_open(data).map(|_| ()),
        "fuzz_cursor" => {
            let Ok((spec, ops, probes)) = bytescase::cursor_case(data) else { return Ok(()) };
            match focus {
                "C02" => c02::C02.run(&c02::Case { spec, picks: vec![], probes, pre: ops }, &mut obs),
                "C16" => c16::C16.run(&c16::Case::History { spec, ops }, &mut obs),
                // C03 and C17 (sanitizer is the oracle there, the history is the workload)
                _ => c03::C03.run(&c03::Case::History { spec, ops }, &mut obs),
            }
        }
        "fuzz_writer" => {
            let Ok((spec, perturbs)) = bytescase::writer_case(data) else { return Ok(()) };
            match focus {
                "C09" => c09::C09.run(&c09::Case { spec, picks: vec![], probes: vec![] }, &mut obs),
                "C15" => c15::C15.run(&spec, &mut obs),
                "C18" => c18::C18.run(&c18::Case { conf: spec.conf, src: spec.src, perturbs }, &mut obs),
                _ => c01::C01.run(&spec, &mut obs),
            }
        }
        "fuzz_sorter" => {
            let Ok((conf, kind, src)) = bytescase::sorter_case(data) else { return Ok(()) };
            let _ = c17::C17;
            let raw = data.len() % 3 == 0;
            c07::C07.run(&c07::Case { conf, kind, src, raw }, &mut obs)
        }
        other => Err(Fail::new("harness:unknown-target", other.to_string())),
    }
}

/// Called by the fuzz targets: a failing oracle prints a tagged line and aborts so that libFuzzer saves the input.
pub fn fuzz_entry(target: &str, data: &[u8]) {
    if let Err(f) = run(target, focus(), data) {
        eprintln!("VERIF-ORACLE-FAIL property={} target={} signature={}", focus(), target, f.signature);
        eprintln!("  {}", f.msg.chars().take(1500).collect::<String>());
        std::process::abort();
    }
}
