//! Bounded-exhaustive ("small scope") enumerations shared by C02, C04 and C05: EVERY set of keys over a tiny alphabet,
//! written with two layouts, against EVERY probe / bound pair / prefix over the same alphabet. Complements the
//! sampled generators: whatever goes wrong on some small key set with short 00/7f/ff keys is found with certainty.

use std::ops::Bound;
use std::sync::atomic::{AtomicU64, AtomicUsize, Ordering};
use std::sync::Mutex;

use serde_json::{json, Value};

use crate::common::{brief, write_file, Codec, Entries, Fail, WConf};
use crate::gen::Tier;
use crate::model::Model;
use crate::rd::{self, COp};
use crate::runner::ExtraOut;

pub fn strings(alphabet: &[u8], max_len: usize) -> Vec<Vec<u8>> {
    let mut out: Vec<Vec<u8>> = vec![vec![]];
    let mut layer: Vec<Vec<u8>> = vec![vec![]];
    for _ in 0..max_len {
        let mut next = Vec::new();
        for s in &layer {
            for a in alphabet {
                let mut t = s.clone();
                t.push(*a);
                next.push(t);
            }
        }
        out.extend(next.iter().cloned());
        layer = next;
    }
    out.sort();
    out
}

pub struct Scope {
    pub universe: Vec<Vec<u8>>,
    pub probes: Vec<Vec<u8>>,
    pub layouts: Vec<(WConf, usize)>,
}

pub fn scope(tier: Tier) -> Scope {
    let alphabet: &[u8] = match tier {
        Tier::Quick => &[0x00, 0xff],
        Tier::Thorough => &[0x00, 0x7f, 0xff],
    };
    Scope {
        universe: strings(alphabet, 2),
        probes: strings(alphabet, 3),
        // one block with an offset slot every other entry; and ~2 entries per block under a 2-level index
        layouts: vec![
            (WConf { codec: Codec::None, level: 0, block_size: None, interval: Some(2), levels: 0 }, 3),
            (WConf { codec: Codec::None, level: 0, block_size: Some(1024), interval: Some(1), levels: 2 }, 600),
            (WConf { codec: Codec::Snappy, level: 0, block_size: Some(1024), interval: None, levels: 1 }, 400),
        ],
    }
}

pub fn file_of(universe: &[Vec<u8>], mask: u64, vlen: usize) -> Entries {
    universe
        .iter()
        .enumerate()
        .filter(|(i, _)| mask >> i & 1 == 1)
        .map(|(i, k)| {
            let mut v = vec![0x30 + i as u8; vlen];
            v.extend_from_slice(k);
            (k.clone(), v)
        })
        .collect()
}

/// Runs `per_file(entries, bytes, conf)` for every subset of the universe and every layout, on all threads.
/// `per_file` returns (evaluations, first failure).
pub fn for_all_files(
    sc: &Scope,
    threads: usize,
    what: &str,
    per_file: &(dyn Fn(&Entries, &[u8], &Scope) -> Result<u64, Fail> + Sync),
) -> ExtraOut {
    let mut out = ExtraOut::default();
    let n_masks: u64 = 1u64 << sc.universe.len();
    let next = AtomicU64::new(0);
    let evals = AtomicU64::new(0);
    let files = AtomicUsize::new(0);
    let failure: Mutex<Option<(Fail, Value)>> = Mutex::new(None);
    std::thread::scope(|s| {
        for _ in 0..threads {
            s.spawn(|| loop {
                let m = next.fetch_add(1, Ordering::Relaxed);
                if m >= n_masks || failure.lock().unwrap().is_some() {
                    break;
                }
                for (li, (conf, vlen)) in sc.layouts.iter().enumerate() {
                    let entries = file_of(&sc.universe, m, *vlen);
                    let r = crate::common::catch(|| -> Result<u64, Fail> {
                        let bytes = write_file(conf, &entries)?;
                        per_file(&entries, &bytes, sc)
                    })
                    .unwrap_or_else(|p| Err(Fail::new("smallscope:panic", p)));
                    match r {
                        Ok(n) => {
                            evals.fetch_add(n, Ordering::Relaxed);
                            files.fetch_add(1, Ordering::Relaxed);
                        }
                        Err(f) => {
                            let mut g = failure.lock().unwrap();
                            if g.is_none() {
                                let keys: Vec<String> = entries.iter().map(|e| brief(&e.0)).collect();
                                *g = Some((
                                    Fail::new(format!("{}:small-scope", f.signature), format!("small-scope file {{{}}} ({}): {}", keys.join(", "), conf.label(), f.msg)),
                                    json!({"SmallScope": {"mask": m, "layout": li}}),
                                ));
                            }
                            return;
                        }
                    }
                }
            });
        }
    });
    let e = evals.into_inner();
    out.evaluations = e;
    out.nontrivial = e;
    out.counters.insert(format!("small_scope_{what}"), e);
    out.counters.insert("small_scope_files".into(), files.into_inner() as u64);
    out.samples.push(json!({"kind": "small-scope", "what": what, "universe_keys": sc.universe.len(), "files": n_masks * sc.layouts.len() as u64,
        "probes": sc.probes.len(), "evaluations": e, "universe": sc.universe.iter().map(|k| brief(k)).collect::<Vec<_>>()}));
    if let Some(f) = failure.into_inner().unwrap() {
        out.violations.push(f);
    } else {
        out.exhaustive = None;
    }
    out
}

pub fn seeks(tier: Tier, threads: usize) -> ExtraOut {
    let sc = scope(tier);
    for_all_files(&sc, threads, "seeks", &|entries, bytes, sc| {
        let m = Model::new(entries);
        let reader = rd::open(bytes)?;
        let mut long_lived = rd::guard("into_cursor", || reader.clone().into_cursor())?;
        let mut n = 0;
        for q in &sc.probes {
            for op in [COp::Ge(q.clone()), COp::Le(q.clone()), COp::Eq(q.clone())] {
                let want = rd::model_abs(&m, &op).map(|i| entries[i].clone());
                let mut fresh = rd::guard("into_cursor", || reader.clone().into_cursor())?;
                let got = rd::apply(&mut fresh, &op)?;
                if got != want {
                    return Err(Fail::new("c02:fresh", format!("{} returned {} but the model says {}", op.show(), rd::show(&got), rd::show(&want))));
                }
                long_lived.reset();
                let got = rd::apply(&mut long_lived, &op)?;
                if got != want {
                    return Err(Fail::new("c02:reset", format!("reset cursor, {} returned {} but the model says {}", op.show(), rd::show(&got), rd::show(&want))));
                }
                n += 2;
            }
        }
        Ok(n)
    })
}

pub fn ranges(tier: Tier, threads: usize) -> ExtraOut {
    let sc = scope(tier);
    for_all_files(&sc, threads, "ranges", &|entries, bytes, sc| {
        let reader = rd::open(bytes)?;
        let mut bounds: Vec<Bound<Vec<u8>>> = vec![Bound::Unbounded];
        for p in &sc.probes {
            bounds.push(Bound::Included(p.clone()));
            bounds.push(Bound::Excluded(p.clone()));
        }
        let mut n = 0;
        for a in &bounds {
            for b in &bounds {
                crate::props::c04::check_range(&reader, entries, &(a.clone(), b.clone()), "c04")?;
                n += 2;
            }
        }
        Ok(n)
    })
}

pub fn prefixes(tier: Tier, threads: usize) -> ExtraOut {
    let sc = scope(tier);
    for_all_files(&sc, threads, "prefixes", &|entries, bytes, sc| {
        let reader = rd::open(bytes)?;
        let mut n = 0;
        for p in &sc.probes {
            crate::props::c05::check_prefix(&reader, entries, p, "c05")?;
            n += 2;
        }
        Ok(n)
    })
}
