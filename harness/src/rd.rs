//! Helpers around the current grenad reader: guarded calls, scans, comparisons.

use std::io::{Cursor, Read, Seek};

use grenad::{Reader, ReaderCursor};

use crate::common::{brief, catch, panic_sig, Check, Entries, Fail};

pub type MemCursor<'a> = ReaderCursor<Cursor<&'a [u8]>>;

/// Guards a read-side call: a panic or an `Err` on a valid file is a failure.
pub fn guard<T, E: std::fmt::Debug>(what: &str, f: impl FnOnce() -> Result<T, E>) -> Check<T> {
    match catch(f) {
        Ok(Ok(v)) => Ok(v),
        Ok(Err(e)) => Err(Fail::new(
            format!("read:err:{what}"),
            format!("{what} returned an error on a valid file: {:?}", e),
        )),
        Err(p) => Err(Fail::new(format!("read:{}", panic_sig(&p)), format!("{what} panicked: {p}"))),
    }
}

pub fn open(bytes: &[u8]) -> Check<Reader<Cursor<&[u8]>>> {
    guard("Reader::new", || Reader::new(Cursor::new(bytes)))
}

pub fn cursor(bytes: &[u8]) -> Check<MemCursor<'_>> {
    let r = open(bytes)?;
    guard("into_cursor", || r.into_cursor())
}

pub fn own(e: Option<(&[u8], &[u8])>) -> Option<(Vec<u8>, Vec<u8>)> {
    e.map(|(k, v)| (k.to_vec(), v.to_vec()))
}

pub fn scan_fwd<R: Read + Seek>(c: &mut ReaderCursor<R>, limit: usize) -> Check<Entries> {
    let mut out = Vec::new();
    loop {
        let e = guard("move_on_next", || c.move_on_next().map(own))?;
        match e {
            Some(e) => out.push(e),
            None => return Ok(out),
        }
        if out.len() > limit {
            return Err(Fail::new("scan:overrun", format!("forward scan yields more than {limit} entries")));
        }
    }
}

pub fn scan_bwd<R: Read + Seek>(c: &mut ReaderCursor<R>, limit: usize) -> Check<Entries> {
    let mut out = Vec::new();
    loop {
        let e = guard("move_on_prev", || c.move_on_prev().map(own))?;
        match e {
            Some(e) => out.push(e),
            None => return Ok(out),
        }
        if out.len() > limit {
            return Err(Fail::new("scan:overrun", format!("backward scan yields more than {limit} entries")));
        }
    }
}

pub fn show(e: &Option<(Vec<u8>, Vec<u8>)>) -> String {
    match e {
        None => "None".into(),
        Some((k, v)) => format!("({}, {})", brief(k), brief(v)),
    }
}

pub fn show_ref(e: Option<(&[u8], &[u8])>) -> String {
    match e {
        None => "None".into(),
        Some((k, v)) => format!("({}, {})", brief(k), brief(v)),
    }
}

/// First index at which two entry lists differ, rendered.
pub fn first_diff(got: &Entries, want: &Entries) -> Option<String> {
    if got == want {
        return None;
    }
    let i = got.iter().zip(want.iter()).position(|(a, b)| a != b).unwrap_or(got.len().min(want.len()));
    Some(format!(
        "lengths got={} want={}; first difference at #{}: got {} want {}",
        got.len(),
        want.len(),
        i,
        show(&got.get(i).cloned()),
        show(&want.get(i).cloned())
    ))
}

// ---------------------------------------------------------------------------------------------
// cursor operations as data

#[derive(Clone, Debug, PartialEq, Eq)]
pub enum COp {
    First,
    Last,
    Next,
    Prev,
    Ge(Vec<u8>),
    Le(Vec<u8>),
    Eq(Vec<u8>),
    Reset,
}

impl COp {
    pub fn show(&self) -> String {
        match self {
            COp::First => "first".into(),
            COp::Last => "last".into(),
            COp::Next => "next".into(),
            COp::Prev => "prev".into(),
            COp::Ge(q) => format!("GE({})", brief(q)),
            COp::Le(q) => format!("LE({})", brief(q)),
            COp::Eq(q) => format!("EQ({})", brief(q)),
            COp::Reset => "reset".into(),
        }
    }
    pub fn is_abs(&self) -> bool {
        !matches!(self, COp::Next | COp::Prev | COp::Reset)
    }
}

/// Applies one operation to a real cursor under a panic/error guard.
pub fn apply<R: Read + Seek>(c: &mut ReaderCursor<R>, op: &COp) -> Check<Option<(Vec<u8>, Vec<u8>)>> {
    match op {
        COp::First => guard("move_on_first", || c.move_on_first().map(own)),
        COp::Last => guard("move_on_last", || c.move_on_last().map(own)),
        COp::Next => guard("move_on_next", || c.move_on_next().map(own)),
        COp::Prev => guard("move_on_prev", || c.move_on_prev().map(own)),
        COp::Ge(q) => guard("move_on_key_greater_than_or_equal_to", || c.move_on_key_greater_than_or_equal_to(q).map(own)),
        COp::Le(q) => guard("move_on_key_lower_than_or_equal_to", || c.move_on_key_lower_than_or_equal_to(q).map(own)),
        COp::Eq(q) => guard("move_on_key_equal_to", || c.move_on_key_equal_to(q).map(own)),
        COp::Reset => {
            c.reset();
            Ok(None)
        }
    }
}

/// Model answer of an absolute operation.
pub fn model_abs(m: &crate::model::Model, op: &COp) -> Option<usize> {
    match op {
        COp::First => (!m.e.is_empty()).then_some(0),
        COp::Last => m.e.len().checked_sub(1),
        COp::Ge(q) => m.ceil(q),
        COp::Le(q) => m.floor(q),
        COp::Eq(q) => m.exact(q),
        _ => unreachable!(),
    }
}
