//! Reference model: a sorted vector of entries and the cursor position machine (DESIGN 6.1).

use serde::{Deserialize, Serialize};

use crate::common::{pick, Blob, Entries, Entry};

pub struct Model<'a> {
    pub e: &'a [Entry],
}

impl<'a> Model<'a> {
    pub fn new(e: &'a [Entry]) -> Model<'a> {
        debug_assert!(e.windows(2).all(|w| w[0].0 < w[1].0));
        Model { e }
    }

    /// index of the smallest key >= q
    pub fn ceil(&self, q: &[u8]) -> Option<usize> {
        let i = self.e.partition_point(|(k, _)| k.as_slice() < q);
        (i < self.e.len()).then_some(i)
    }

    /// index of the largest key <= q
    pub fn floor(&self, q: &[u8]) -> Option<usize> {
        let i = self.e.partition_point(|(k, _)| k.as_slice() <= q);
        i.checked_sub(1)
    }

    pub fn exact(&self, q: &[u8]) -> Option<usize> {
        self.e.binary_search_by(|(k, _)| k.as_slice().cmp(q)).ok()
    }

    pub fn get(&self, i: Option<usize>) -> Option<(&'a [u8], &'a [u8])> {
        i.map(|i| (self.e[i].0.as_slice(), self.e[i].1.as_slice()))
    }
}

/// A probe described relative to the file content, so that it survives shrinking of the file.
#[derive(Clone, Debug, PartialEq, Eq, Hash, Serialize, Deserialize)]
pub enum Probe {
    /// the i-th stored key
    Key(u16),
    /// the stored key `off` positions away from the i-th one (clamped)
    KeyOff(u16, i8),
    /// stored key ‖ 00 : the smallest string above that key
    Succ(u16),
    /// a string just below the stored key (see `pred_of`)
    Pred(u16),
    /// a proper prefix of a stored key
    PrefixOf(u16, u8),
    /// stored key with extra bytes appended
    Ext(u16, Blob),
    /// stored key with one byte changed
    Mutate(u16, u16, u8),
    Empty,
    /// last key ‖ 00
    AfterLast,
    /// FF.. one byte longer than the longest key
    AllFF,
    Lit(Blob),
}

/// A string strictly below `k` and above every string that is below `k` minus one step:
/// `k` without its trailing 00, or with its last byte decremented and FF-padding appended.
pub fn pred_of(k: &[u8]) -> Option<Vec<u8>> {
    let (&last, head) = k.split_last()?;
    let mut v = head.to_vec();
    if last > 0 {
        v.push(last - 1);
        v.extend_from_slice(&[0xFF; 3]);
    }
    Some(v)
}

impl Probe {
    pub fn bytes(&self, e: &[Entry]) -> Vec<u8> {
        let key = |i: u16| -> Vec<u8> {
            if e.is_empty() {
                Vec::new()
            } else {
                e[pick(i, e.len())].0.clone()
            }
        };
        match self {
            Probe::Key(i) => key(*i),
            Probe::KeyOff(i, off) => {
                if e.is_empty() {
                    Vec::new()
                } else {
                    let j = (pick(*i, e.len()) as i64 + *off as i64).clamp(0, e.len() as i64 - 1);
                    e[j as usize].0.clone()
                }
            }
            Probe::Succ(i) => {
                let mut k = key(*i);
                k.push(0);
                k
            }
            Probe::Pred(i) => pred_of(&key(*i)).unwrap_or_default(),
            Probe::PrefixOf(i, l) => {
                let k = key(*i);
                let n = if k.is_empty() { 0 } else { (*l as usize * k.len()) >> 8 };
                k[..n].to_vec()
            }
            Probe::Ext(i, b) => {
                let mut k = key(*i);
                k.extend_from_slice(&b.bytes());
                k
            }
            Probe::Mutate(i, pos, byte) => {
                let mut k = key(*i);
                if !k.is_empty() {
                    let p = pick(*pos, k.len());
                    k[p] = *byte;
                }
                k
            }
            Probe::Empty => Vec::new(),
            Probe::AfterLast => {
                let mut k = e.last().map(|x| x.0.clone()).unwrap_or_default();
                k.push(0);
                k
            }
            Probe::AllFF => {
                let m = e.iter().map(|x| x.0.len()).max().unwrap_or(0);
                vec![0xFF; m + 1]
            }
            Probe::Lit(b) => b.bytes(),
        }
    }
}

/// One probe per key-order equivalence class of a file: every stored key, one string in every gap
/// (when the gap is non-empty), one below the first key (when one exists) and one above the last.
/// Returned sorted and de-duplicated. `2n+1` classes at most.
pub fn complete_alphabet(e: &[Entry]) -> Vec<Vec<u8>> {
    let mut out: Vec<Vec<u8>> = Vec::with_capacity(2 * e.len() + 2);
    for (i, (k, _)) in e.iter().enumerate() {
        out.push(k.clone());
        // k‖00 is the immediate successor of k: it lies in the gap after k unless it is stored
        let mut s = k.clone();
        s.push(0);
        let next_is_s = e.get(i + 1).map_or(false, |n| n.0 == s);
        if !next_is_s {
            out.push(s);
        }
    }
    if let Some((first, _)) = e.first() {
        if !first.is_empty() {
            // the empty string is below every non-empty key
            out.push(Vec::new());
        }
    } else {
        out.push(Vec::new());
        out.push(vec![0x42]);
    }
    out.sort();
    out.dedup();
    out
}

// ---------------------------------------------------------------------------------------------
// Cursor position machine

#[derive(Clone, Copy, Debug, PartialEq, Eq, Hash)]
pub enum Pos {
    Fresh,
    At(usize),
    Undefined,
}

#[derive(Clone, Debug, PartialEq, Eq, Hash, Serialize, Deserialize)]
pub enum Op {
    First,
    Last,
    Next,
    Prev,
    Ge(Probe),
    Le(Probe),
    Eq(Probe),
    Reset,
    Current,
    /// clone the cursor, continue on the clone, and at the end verify the original is untouched
    CloneSwitch,
    /// continue on the most recently parked cursor (the original of the last clone), parking the current one:
    /// original and clone are then used alternately
    Swap,
}

/// What the model expects from an operation.
pub enum Expect {
    /// judged: must equal this entry index (or None)
    Entry(Option<usize>),
    /// executed but not judged
    Unspecified,
    /// nothing returned (reset)
    Nothing,
}

/// Model transition for relative moves. Returns (expectation, new position).
pub fn step_rel(n: usize, pos: Pos, next: bool) -> (Expect, Pos) {
    match pos {
        Pos::Fresh => {
            let r = if n == 0 {
                None
            } else if next {
                Some(0)
            } else {
                Some(n - 1)
            };
            (Expect::Entry(r), r.map_or(Pos::Undefined, Pos::At))
        }
        Pos::At(i) => {
            let r = if next {
                (i + 1 < n).then_some(i + 1)
            } else {
                i.checked_sub(1)
            };
            (Expect::Entry(r), r.map_or(Pos::Undefined, Pos::At))
        }
        Pos::Undefined => (Expect::Unspecified, Pos::Undefined),
    }
}

pub fn entries_of(e: &Entries) -> &[Entry] {
    e.as_slice()
}
