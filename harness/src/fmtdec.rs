//! Independent decoder of the grenad file format (V1 and V2). Shares no code with /repo: it parses
//! the trailer, the block tiling, the block payloads, the in-block offset tables and the index
//! structure on its own, and only calls the compression crates directly.

use std::io::Read;

use crate::common::{Entries, MAGIC_V1, MAGIC_V2};

#[derive(Clone, Debug)]
pub struct EntryInfo {
    pub key: Vec<u8>,
    pub val: Vec<u8>,
    /// byte offset of the entry inside the block payload
    pub start: usize,
    /// encoded size (two varints + key + value)
    pub enc_size: usize,
}

#[derive(Clone, Debug)]
pub struct BlockInfo {
    pub offset: u64,
    pub stored_len: u64,
    /// uncompressed size of the block (payload + offset table + count)
    pub raw_len: usize,
    pub payload_len: usize,
    pub offsets: Vec<u64>,
    pub entries: Vec<EntryInfo>,
    /// depth in the tree: 0 = root index block, `levels` = deepest index level, `levels+1` = data
    pub depth: Option<usize>,
    /// index (into `Decoded::blocks`) of the index block referencing this block
    pub parent: Option<usize>,
}

#[derive(Clone, Debug)]
pub struct Trailer {
    pub version: u8,
    pub root_offset: u64,
    pub codec_id: u8,
    pub count: u64,
    pub levels: u8,
    pub size: usize,
}

#[derive(Clone, Debug)]
pub struct Decoded {
    pub trailer: Trailer,
    /// in file order
    pub blocks: Vec<BlockInfo>,
    /// entries of the data blocks in index order
    pub entries: Entries,
    /// for every entry, the index (into `blocks`) of the data block holding it
    pub entry_block: Vec<usize>,
    /// layout facts true of today's writer but not part of the format description (observed, never judged)
    pub notes: Vec<&'static str>,
}

#[derive(Clone, Copy, Debug)]
pub struct Opts {
    /// check offset tables against this interval
    pub interval: Option<usize>,
    /// require strictly ascending keys inside every block (data and index)
    pub check_order: bool,
    /// additionally require ascending keys across consecutive data blocks
    pub check_global_order: bool,
}

impl Opts {
    pub fn lax() -> Opts {
        Opts { interval: None, check_order: false, check_global_order: false }
    }
    pub fn strict(interval: usize) -> Opts {
        Opts { interval: Some(interval), check_order: true, check_global_order: true }
    }
}

fn le64(b: &[u8]) -> u64 {
    u64::from_le_bytes(b.try_into().unwrap())
}
fn be64(b: &[u8]) -> u64 {
    u64::from_be_bytes(b.try_into().unwrap())
}

/// Parses a trailer at the end of `b`, or says why there is none. This is the predicate P of C13.
pub fn parse_trailer(b: &[u8]) -> Result<Trailer, &'static str> {
    let n = b.len();
    if n < 4 {
        return Err("shorter than a magic number");
    }
    let magic = u32::from_le_bytes(b[n - 4..].try_into().unwrap());
    if magic == MAGIC_V2 {
        if n < 22 {
            return Err("v2 magic but shorter than 22 bytes");
        }
        let t = &b[n - 22..];
        let codec_id = t[8];
        if codec_id > 5 {
            return Err("unknown codec id");
        }
        Ok(Trailer {
            version: 2,
            root_offset: le64(&t[0..8]),
            codec_id,
            count: le64(&t[9..17]),
            levels: t[17],
            size: 22,
        })
    } else if magic == MAGIC_V1 {
        if n < 21 {
            return Err("v1 magic but shorter than 21 bytes");
        }
        let t = &b[n - 21..];
        let codec_id = t[8];
        if codec_id > 5 {
            return Err("unknown codec id");
        }
        Ok(Trailer {
            version: 1,
            root_offset: le64(&t[0..8]),
            codec_id,
            count: le64(&t[9..17]),
            levels: 0,
            size: 21,
        })
    } else {
        Err("unknown magic")
    }
}

/// Builds a V1 trailer (independent encoder used by C10).
pub fn encode_v1_trailer(root_offset: u64, codec_id: u8, count: u64) -> Vec<u8> {
    let mut v = Vec::with_capacity(21);
    v.extend_from_slice(&root_offset.to_le_bytes());
    v.push(codec_id);
    v.extend_from_slice(&count.to_le_bytes());
    v.extend_from_slice(&MAGIC_V1.to_le_bytes());
    v
}

pub fn decompress(codec_id: u8, body: &[u8]) -> Result<Vec<u8>, String> {
    match codec_id {
        0 => Ok(body.to_vec()),
        1 => snap::raw::Decoder::new().decompress_vec(body).map_err(|e| format!("snap raw: {e}")),
        2 => {
            let mut out = Vec::new();
            flate2::read::ZlibDecoder::new(body)
                .read_to_end(&mut out)
                .map_err(|e| format!("zlib: {e}"))?;
            Ok(out)
        }
        3 => {
            let mut out = Vec::new();
            lz4_flex::frame::FrameDecoder::new(body)
                .read_to_end(&mut out)
                .map_err(|e| format!("lz4: {e}"))?;
            Ok(out)
        }
        4 => zstd::stream::decode_all(body).map_err(|e| format!("zstd: {e}")),
        5 => {
            let mut out = Vec::new();
            snap::read::FrameDecoder::new(body)
                .read_to_end(&mut out)
                .map_err(|e| format!("snap frame: {e}"))?;
            Ok(out)
        }
        _ => Err("unknown codec".into()),
    }
}

/// Independent LEB128 (u32) reader: returns (value, bytes consumed).
pub fn leb128_read(b: &[u8]) -> Result<(u32, usize), String> {
    let mut v: u64 = 0;
    for i in 0..5 {
        let byte = *b.get(i).ok_or("varint runs past the payload")?;
        v |= ((byte & 0x7f) as u64) << (7 * i);
        if byte & 0x80 == 0 {
            if v > u32::MAX as u64 {
                return Err("varint above u32".into());
            }
            return Ok((v as u32, i + 1));
        }
    }
    Err("varint longer than five bytes".into())
}

/// Independent LEB128 (u32) writer.
pub fn leb128_write(mut v: u32) -> Vec<u8> {
    let mut out = Vec::new();
    loop {
        let b = (v & 0x7f) as u8;
        v >>= 7;
        if v == 0 {
            out.push(b);
            return out;
        }
        out.push(b | 0x80);
    }
}

fn parse_block(raw: &[u8], opts: &Opts, offset: u64) -> Result<(usize, Vec<u64>, Vec<EntryInfo>), String> {
    let at = |m: &str| format!("block@{offset}: {m}");
    if raw.len() < 12 {
        return Err(at("shorter than the smallest block (12 bytes)"));
    }
    let n = raw.len();
    let count = u32::from_be_bytes(raw[n - 4..].try_into().unwrap()) as usize;
    if count == 0 {
        return Err(at("offset table count is zero"));
    }
    let table = count.checked_mul(8).filter(|t| t + 4 <= n).ok_or_else(|| at("offset table larger than block"))?;
    let payload_len = n - 4 - table;
    let offsets: Vec<u64> = raw[payload_len..n - 4].chunks_exact(8).map(be64).collect();
    let payload = &raw[..payload_len];
    let mut entries = Vec::new();
    let mut p = 0usize;
    while p < payload.len() {
        let start = p;
        let (kl, a) = leb128_read(&payload[p..]).map_err(|e| at(&e))?;
        p += a;
        let (vl, b) = leb128_read(&payload[p..]).map_err(|e| at(&e))?;
        p += b;
        let (kl, vl) = (kl as usize, vl as usize);
        if p + kl + vl > payload.len() {
            return Err(at("entry runs past the payload"));
        }
        let key = payload[p..p + kl].to_vec();
        p += kl;
        let val = payload[p..p + vl].to_vec();
        p += vl;
        entries.push(EntryInfo { key, val, start, enc_size: p - start });
    }
    if offsets[0] != 0 {
        return Err(at("first offset is not 0"));
    }
    if let Some(iv) = opts.interval {
        let want = if entries.is_empty() { 1 } else { entries.len().div_ceil(iv) };
        if offsets.len() != want {
            return Err(at(&format!(
                "offset table has {} slots, expected {} for {} entries at interval {}",
                offsets.len(),
                want,
                entries.len(),
                iv
            )));
        }
        for (j, off) in offsets.iter().enumerate() {
            if entries.is_empty() {
                break;
            }
            let e = &entries[j * iv];
            if *off != e.start as u64 {
                return Err(at(&format!(
                    "offset slot {j} is {off}, entry {} starts at {}",
                    j * iv,
                    e.start
                )));
            }
        }
    } else {
        // without the interval: strictly ascending and each one the start of an entry
        for w in offsets.windows(2) {
            if w[0] >= w[1] {
                return Err(at("offset table not ascending"));
            }
        }
        for off in &offsets {
            // entries are in increasing start order
            if !entries.is_empty() && entries.binary_search_by_key(off, |e| e.start as u64).is_err() {
                return Err(at("offset slot does not name an entry start"));
            }
        }
    }
    if opts.check_order {
        for w in entries.windows(2) {
            if w[0].key >= w[1].key {
                return Err(at(&format!(
                    "ORDER: keys not strictly ascending inside the block: {} then {}",
                    crate::common::brief(&w[0].key),
                    crate::common::brief(&w[1].key)
                )));
            }
        }
    }
    Ok((payload_len, offsets, entries))
}

/// Full structural decode. Any deviation from the documented V1/V2 layout is an `Err`.
pub fn decode(b: &[u8], opts: &Opts) -> Result<Decoded, String> {
    let trailer = parse_trailer(b).map_err(|e| format!("trailer: {e}"))?;
    let body_end = b.len() - trailer.size;
    // (2) tiling
    let mut blocks = Vec::new();
    let mut p = 0usize;
    while p < body_end {
        if p + 8 > body_end {
            return Err(format!("tiling: {} stray bytes before the trailer", body_end - p));
        }
        let stored_len = be64(&b[p..p + 8]);
        let start = p + 8;
        let end = (start as u64).checked_add(stored_len).filter(|e| *e <= body_end as u64).ok_or_else(|| {
            format!("tiling: block@{p} with stored length {stored_len} runs past the trailer")
        })? as usize;
        let raw = decompress(trailer.codec_id, &b[start..end]).map_err(|e| format!("block@{p}: {e}"))?;
        let (payload_len, offsets, entries) = parse_block(&raw, opts, p as u64)?;
        blocks.push(BlockInfo {
            offset: p as u64,
            stored_len,
            raw_len: raw.len(),
            payload_len,
            offsets,
            entries,
            depth: None,
            parent: None,
        });
        p = end;
    }
    if blocks.is_empty() {
        return Err("no block at all (a root index block is mandatory)".into());
    }
    // (5) index walk
    let find = |blocks: &Vec<BlockInfo>, off: u64| {
        blocks.binary_search_by_key(&off, |bl| bl.offset).ok()
    };
    let root = find(&blocks, trailer.root_offset)
        .ok_or_else(|| format!("root offset {} is not the start of a block", trailer.root_offset))?;
    let mut notes: Vec<&'static str> = Vec::new();
    if root != blocks.len() - 1 {
        notes.push("root-not-last-block");
    }
    let depth_data = trailer.levels as usize + 1;
    let mut entries: Entries = Vec::new();
    let mut visit_order: Vec<usize> = Vec::new();
    fn walk(
        blocks: &mut Vec<BlockInfo>,
        idx: usize,
        depth: usize,
        depth_data: usize,
        out: &mut Entries,
        order: &mut Vec<usize>,
        eb: &mut Vec<usize>,
    ) -> Result<Option<Vec<u8>>, String> {
        if blocks[idx].depth.is_some() {
            return Err(format!("block@{} is referenced twice", blocks[idx].offset));
        }
        blocks[idx].depth = Some(depth);
        order.push(idx);
        if depth == depth_data {
            if blocks[idx].entries.is_empty() {
                return Err(format!("data block@{} is empty", blocks[idx].offset));
            }
            for e in &blocks[idx].entries {
                out.push((e.key.clone(), e.val.clone()));
                eb.push(idx);
            }
            return Ok(blocks[idx].entries.last().map(|e| e.key.clone()));
        }
        let children: Vec<(Vec<u8>, Vec<u8>)> =
            blocks[idx].entries.iter().map(|e| (e.key.clone(), e.val.clone())).collect();
        if children.is_empty() && depth != 0 {
            return Err(format!("non-root index block@{} is empty", blocks[idx].offset));
        }
        let mut last = None;
        for (k, v) in children {
            if v.len() != 8 {
                return Err(format!("index value of {} bytes in block@{}", v.len(), blocks[idx].offset));
            }
            let off = u64::from_be_bytes(v.as_slice().try_into().unwrap());
            let child = blocks
                .binary_search_by_key(&off, |bl| bl.offset)
                .map_err(|_| format!("index entry points to {off}, not a block start"))?;
            if blocks[child].parent.is_none() {
                blocks[child].parent = Some(idx);
            }
            let child_last = walk(blocks, child, depth + 1, depth_data, out, order, eb)?;
            if child_last.as_deref() != Some(k.as_slice()) {
                return Err(format!(
                    "index key {} differs from the last key {:?} of child block@{off}",
                    crate::common::brief(&k),
                    child_last.as_deref().map(crate::common::brief)
                ));
            }
            last = Some(k);
        }
        Ok(last)
    }
    let mut entry_block = Vec::new();
    walk(&mut blocks, root, 0, depth_data, &mut entries, &mut visit_order, &mut entry_block)?;
    // every block reachable exactly once
    if blocks.iter().any(|bl| bl.depth.is_none()) {
        notes.push("unreferenced-block");
    }
    // children in file order: a post-order position check — data blocks ascend in file order,
    // and within every level the blocks ascend in file order
    for d in 0..=depth_data {
        let offs: Vec<u64> = visit_order.iter().filter(|i| blocks[**i].depth == Some(d)).map(|i| blocks[*i].offset).collect();
        if offs.windows(2).any(|w| w[0] >= w[1]) {
            notes.push("children-not-in-file-order");
        }
    }
    if opts.check_global_order {
        for w in entries.windows(2) {
            if w[0].0 >= w[1].0 {
                return Err(format!(
                    "ORDER: keys not strictly ascending across data blocks: {} then {}",
                    crate::common::brief(&w[0].0),
                    crate::common::brief(&w[1].0)
                ));
            }
        }
    }
    if trailer.count != entries.len() as u64 {
        return Err(format!("trailer count {} but {} entries found", trailer.count, entries.len()));
    }
    Ok(Decoded { trailer, blocks, entries, entry_block, notes })
}

impl Decoded {
    pub fn data_blocks(&self) -> impl Iterator<Item = &BlockInfo> {
        let d = self.trailer.levels as usize + 1;
        self.blocks.iter().filter(move |b| b.depth == Some(d))
    }

    pub fn n_data_blocks(&self) -> usize {
        self.data_blocks().count()
    }

    /// number of blocks per depth, `[root, level1, .., data]`
    pub fn per_depth(&self) -> Vec<usize> {
        let mut v = vec![0usize; self.trailer.levels as usize + 2];
        for b in &self.blocks {
            if let Some(d) = b.depth {
                v[d] += 1;
            }
        }
        v
    }

    /// deepest non-root index depth (1..=levels) holding at least two blocks, if any
    pub fn multi_block_index_depth(&self) -> Option<usize> {
        let pd = self.per_depth();
        (1..=self.trailer.levels as usize).rev().find(|d| pd[*d] >= 2)
    }
}
