//! Sorter / merger vocabulary: merge functions with a call log and fault injection, sorter configurations,
//! the reference "sort and merge" model.

use std::borrow::Cow;
use std::cell::RefCell;
use std::collections::BTreeMap;
use std::num::NonZeroUsize;
use std::rc::Rc;

use proptest::prelude::*;
use serde::{Deserialize, Serialize};

use crate::common::{Codec, Entries};
use crate::gen;
use crate::ioinstr::{ErrKind, Kind, Shared};

#[derive(Clone, Copy, Debug, PartialEq, Eq, Hash, Serialize, Deserialize)]
pub enum MergeKind {
    /// concatenation of the values (values are self-delimiting records); returns `Owned`
    Concat,
    /// returns the first value, `Borrowed`
    First,
    /// returns the last value, `Borrowed`
    Last,
    /// wrapping sum of the values read as little-endian u32 (a lone value is returned unchanged)
    SumU32,
}

impl MergeKind {
    pub const ALL: [MergeKind; 4] = [MergeKind::Concat, MergeKind::First, MergeKind::Last, MergeKind::SumU32];
}

#[derive(Debug, Clone, PartialEq, Eq)]
pub struct MergeErr(pub String);

impl std::fmt::Display for MergeErr {
    fn fmt(&self, f: &mut std::fmt::Formatter<'_>) -> std::fmt::Result {
        write!(f, "{}", self.0)
    }
}

pub type CallLog = Rc<RefCell<Vec<(Vec<u8>, Vec<Vec<u8>>)>>>;

#[derive(Clone)]
pub struct MF {
    pub kind: MergeKind,
    pub log: Option<CallLog>,
    pub ctl: Option<Shared>,
    /// every value carries a 2-byte tag derived from ITS key; the merge function refuses a call whose `key` argument
    /// does not match the values it is given (an oracle inside the user-supplied component)
    pub verify_key: bool,
}

/// two bytes derived from a key
pub fn key_tag(key: &[u8]) -> [u8; 2] {
    let h = crate::common::hash_of(&key);
    [(h >> 8) as u8 | 1, h as u8]
}

pub fn tagged(key: &[u8], v: &[u8]) -> Vec<u8> {
    let mut out = key_tag(key).to_vec();
    out.extend_from_slice(v);
    out
}

impl MF {
    pub fn plain(kind: MergeKind) -> MF {
        MF { kind, log: None, ctl: None, verify_key: false }
    }
    pub fn verifying(kind: MergeKind) -> MF {
        MF { kind, log: None, ctl: None, verify_key: kind != MergeKind::SumU32 }
    }
    pub fn logged(kind: MergeKind) -> (MF, CallLog) {
        let log: CallLog = Rc::new(RefCell::new(Vec::new()));
        (MF { kind, log: Some(log.clone()), ctl: None, verify_key: false }, log)
    }
    pub fn with_ctl(kind: MergeKind, ctl: Shared) -> MF {
        MF { kind, log: None, ctl: Some(ctl), verify_key: false }
    }
}

fn u32_of(v: &[u8]) -> u32 {
    let mut b = [0u8; 4];
    let n = v.len().min(4);
    b[..n].copy_from_slice(&v[..n]);
    u32::from_le_bytes(b)
}

/// The pure function behind every merge kind.
pub fn merge_pure(kind: MergeKind, values: &[Vec<u8>]) -> Vec<u8> {
    match kind {
        MergeKind::Concat => values.concat(),
        MergeKind::First => values.first().cloned().unwrap_or_default(),
        MergeKind::Last => values.last().cloned().unwrap_or_default(),
        MergeKind::SumU32 => {
            if values.len() == 1 {
                values[0].clone()
            } else {
                values.iter().fold(0u32, |a, v| a.wrapping_add(u32_of(v))).to_le_bytes().to_vec()
            }
        }
    }
}

impl grenad::MergeFunction for MF {
    type Error = MergeErr;

    fn merge<'a>(&self, key: &[u8], values: &[Cow<'a, [u8]>]) -> Result<Cow<'a, [u8]>, MergeErr> {
        if let Some(ctl) = &self.ctl {
            let mut c = ctl.borrow_mut();
            let n = c.counts[Kind::Merge.idx()];
            c.counts[Kind::Merge.idx()] += 1;
            if let Some(f) = c.fault {
                if f.kind == Kind::Merge && f.k == n && !c.fired {
                    c.fired = true;
                    c.fired_total = c.counts.iter().sum();
                    return Err(MergeErr(crate::ioinstr::MARKER.to_string()));
                }
            }
        }
        if let Some(log) = &self.log {
            log.borrow_mut().push((key.to_vec(), values.iter().map(|v| v.to_vec()).collect()));
        }
        if self.verify_key {
            let tag = key_tag(key);
            let ok = values.iter().all(|v| match self.kind {
                MergeKind::Concat => parse_records(v).map_or(false, |rs| rs.iter().all(|r| r.len() >= 2 && r[..2] == tag)),
                _ => v.len() >= 2 && v[..2] == tag,
            });
            if !ok {
                return Err(MergeErr(format!(
                    "KEY-MISMATCH: the merge function was called with key {} but (some of) its values belong to another key",
                    crate::common::brief(key)
                )));
            }
        }
        Ok(match self.kind {
            MergeKind::Concat => Cow::Owned(values.iter().flat_map(|v| v.iter().copied()).collect()),
            MergeKind::First => values[0].clone(),
            MergeKind::Last => values[values.len() - 1].clone(),
            MergeKind::SumU32 => {
                if values.len() == 1 {
                    values[0].clone()
                } else {
                    Cow::Owned(values.iter().fold(0u32, |a, v| a.wrapping_add(u32_of(v))).to_le_bytes().to_vec())
                }
            }
        })
    }
}

/// frames a value as one self-delimiting record
pub fn record(v: &[u8]) -> Vec<u8> {
    let mut out = (v.len() as u32).to_le_bytes().to_vec();
    out.extend_from_slice(v);
    out
}

/// splits a concatenation of records back into its parts
pub fn parse_records(mut b: &[u8]) -> Option<Vec<Vec<u8>>> {
    let mut out = Vec::new();
    while !b.is_empty() {
        if b.len() < 4 {
            return None;
        }
        let n = u32::from_le_bytes(b[..4].try_into().unwrap()) as usize;
        if b.len() < 4 + n {
            return None;
        }
        out.push(b[4..4 + n].to_vec());
        b = &b[4 + n..];
    }
    Some(out)
}

// ---------------------------------------------------------------------------------------------
// Sorter configuration

#[derive(Clone, Copy, Debug, PartialEq, Eq, Hash, Serialize, Deserialize)]
pub enum Threshold {
    /// hook H1: exact budget, no 10 MiB clamp
    Exact(usize),
    /// the public API: `dump_threshold(n)` (clamped to >= 10 MiB by the library)
    Public(usize),
    /// builder default (1 GiB)
    Default,
}

#[derive(Clone, Copy, Debug, PartialEq, Eq, Hash, Serialize, Deserialize)]
pub enum CreatorKind {
    CursorVec,
    TempFile,
    Instrumented,
    /// chunk storage that uses grenad itself inside every read and write
    InstrumentedReentrant,
    /// chunk storage whose written bytes become readable only after `flush`
    InstrumentedStaging,
}

#[derive(Clone, Debug, PartialEq, Eq, Hash, Serialize, Deserialize)]
pub struct SConf {
    pub threshold: Threshold,
    /// hook H1: initial capacity of the in-memory buffer
    pub init_cap: Option<usize>,
    pub allow_realloc: bool,
    pub max_nb_chunks: usize,
    pub stable: bool,
    pub parallel: bool,
    pub chunk_codec: Option<Codec>,
    pub chunk_level: Option<u32>,
    pub block_size: Option<usize>,
    pub interval: Option<usize>,
    pub levels: Option<u8>,
    pub creator: CreatorKind,
    /// order in which the builder's setters are called (they commute: the built sorter must not depend on it);
    /// `order % 6` rotates the four groups of setters, `order >= 6` calls `chunk_creator` after them instead of before
    #[serde(default)]
    pub order: u8,
}

impl SConf {
    pub fn effective_budget(&self) -> usize {
        match self.threshold {
            Threshold::Exact(n) => n,
            Threshold::Public(n) => n.max(10 * 1024 * 1024),
            Threshold::Default => 1 << 30,
        }
    }

    pub fn apply<MFn, CC>(&self, b: &mut grenad::SorterBuilder<MFn, CC>) {
        // the setters in a rotated / reversed order chosen by `order`
        let steps: [u8; 4] = match self.order % 6 {
            0 => [0, 1, 2, 3],
            1 => [2, 0, 1, 3],
            2 => [3, 2, 1, 0],
            3 => [1, 3, 0, 2],
            4 => [2, 3, 0, 1],
            _ => [3, 0, 2, 1],
        };
        for st in steps {
            match st {
                0 => self.apply_threshold(b),
                1 => self.apply_capacity(b),
                2 => {
                    b.allow_realloc(self.allow_realloc);
                }
                _ => self.apply_rest(b),
            }
        }
    }

    fn apply_capacity<MFn, CC>(&self, b: &mut grenad::SorterBuilder<MFn, CC>) {
        if let Some(c) = self.init_cap {
            b.verif_initial_capacity(c.max(16));
        }
    }

    fn apply_threshold<MFn, CC>(&self, b: &mut grenad::SorterBuilder<MFn, CC>) {
        match self.threshold {
            Threshold::Exact(n) => {
                b.verif_dump_threshold_exact(n);
            }
            Threshold::Public(n) => {
                b.dump_threshold(n);
            }
            Threshold::Default => {}
        }
    }

    fn apply_rest<MFn, CC>(&self, b: &mut grenad::SorterBuilder<MFn, CC>) {
        b.max_nb_chunks(self.max_nb_chunks);
        b.sort_algorithm(if self.stable { grenad::SortAlgorithm::Stable } else { grenad::SortAlgorithm::Unstable });
        b.sort_in_parallel(self.parallel);
        if let Some(c) = self.chunk_codec {
            b.chunk_compression_type(c.g5());
        }
        if let Some(l) = self.chunk_level {
            b.chunk_compression_level(l);
        }
        if let Some(bs) = self.block_size {
            b.block_size(bs);
        }
        if let Some(i) = self.interval {
            b.index_key_interval(NonZeroUsize::new(i.max(1)).unwrap());
        }
        if let Some(l) = self.levels {
            b.index_levels(l);
        }
    }

    pub fn label(&self) -> String {
        format!(
            "thr={:?} cap={:?} realloc={} maxchunks={} {} {} chunk={:?}/{:?} bs={:?} iv={:?} lv={:?} {:?}",
            self.threshold,
            self.init_cap,
            self.allow_realloc,
            self.max_nb_chunks,
            if self.stable { "stable" } else { "unstable" },
            if self.parallel { "parallel" } else { "sequential" },
            self.chunk_codec.map(|c| c.name()),
            self.chunk_level,
            self.block_size,
            self.interval,
            self.levels,
            self.creator
        )
    }
}

/// Small-budget sorter configurations (hook H1) — spills and chunk merges after a handful of inserts.
pub fn sconf_small() -> BoxedStrategy<SConf> {
    let chunk = (
        prop_oneof![3 => Just(None), 2 => Just(Some(Codec::None)), 3 => gen::codec().prop_map(Some)],
        prop_oneof![2 => Just(None), 1 => (0u32..=6).prop_map(Some)],
        prop_oneof![2 => Just(None), 2 => Just(Some(1024usize)), 1 => gen::block_size()],
        gen::interval(),
        prop_oneof![3 => Just(None), 3 => (0u8..=3).prop_map(Some)],
    );
    (
        prop_oneof![3 => 256usize..2048, 3 => 2048usize..16384, 1 => 16384usize..65536],
        prop_oneof![1 => Just(None), 3 => (16usize..4096).prop_map(Some)],
        any::<bool>(),
        prop::sample::select(vec![1usize, 2, 3, 5, 25]),
        any::<bool>(),
        prop_oneof![3 => Just(false), 1 => Just(true)],
        chunk,
        0u8..12,
        prop_oneof![6 => Just(CreatorKind::CursorVec), 1 => Just(CreatorKind::TempFile), 4 => Just(CreatorKind::Instrumented), 1 => Just(CreatorKind::InstrumentedReentrant), 2 => Just(CreatorKind::InstrumentedStaging)],
    )
        .prop_map(|(thr, cap, allow_realloc, max_nb_chunks, stable, parallel, (chunk_codec, chunk_level, block_size, interval, levels), order, creator)| {
            // the initial capacity never exceeds the budget (DESIGN 6.5)
            let init_cap = Some(cap.unwrap_or(thr).min(thr));
            let chunk_level = match chunk_codec {
                Some(Codec::Zlib) | Some(Codec::Zstd) => chunk_level,
                _ => chunk_level,
            };
            SConf {
                threshold: Threshold::Exact(thr),
                init_cap,
                allow_realloc,
                max_nb_chunks,
                stable,
                parallel,
                chunk_codec,
                chunk_level,
                block_size,
                interval,
                levels,
                creator,
                order,
            }
        })
        .boxed()
}

// ---------------------------------------------------------------------------------------------
// Reference model: group by key in insertion order

pub fn group(inserts: &[(Vec<u8>, Vec<u8>)]) -> BTreeMap<Vec<u8>, Vec<Vec<u8>>> {
    let mut m: BTreeMap<Vec<u8>, Vec<Vec<u8>>> = BTreeMap::new();
    for (k, v) in inserts {
        m.entry(k.clone()).or_default().push(v.clone());
    }
    m
}

/// Checks one output value against the inserted values of its key.
pub fn value_ok(kind: MergeKind, stable: bool, inserted: &[Vec<u8>], got: &[u8]) -> Result<(), String> {
    match kind {
        MergeKind::Concat => {
            let parts = parse_records(got).ok_or("merged value does not parse back into records")?;
            if stable {
                if parts != inserted {
                    return Err(format!(
                        "stable sort: merged records differ from the values in insertion order (got {} records, want {})",
                        parts.len(),
                        inserted.len()
                    ));
                }
            } else {
                let mut a = parts.clone();
                let mut b = inserted.to_vec();
                a.sort();
                b.sort();
                if a != b {
                    return Err(format!(
                        "unstable sort: merged records are not a permutation of the inserted values (got {} records, want {})",
                        parts.len(),
                        inserted.len()
                    ));
                }
            }
            Ok(())
        }
        MergeKind::First | MergeKind::Last => {
            let want = if kind == MergeKind::First { inserted.first() } else { inserted.last() }.unwrap();
            if stable {
                if got != want.as_slice() {
                    return Err(format!("stable sort with keep-{:?}: got a value that is not the {:?} inserted one", kind, kind));
                }
            } else if !inserted.iter().any(|v| v.as_slice() == got) {
                return Err("unstable sort with keep-first/last: the value was never inserted for this key".into());
            }
            Ok(())
        }
        MergeKind::SumU32 => {
            let want = merge_pure(MergeKind::SumU32, inserted);
            if got != want.as_slice() {
                return Err(format!("sum merge: got {:02x?} want {:02x?}", got, want));
            }
            Ok(())
        }
    }
}

/// Compares a sorter/merger output with the model.
pub fn output_ok(kind: MergeKind, stable: bool, inserts: &[(Vec<u8>, Vec<u8>)], out: &Entries) -> Result<(), String> {
    let m = group(inserts);
    for w in out.windows(2) {
        if w[0].0 >= w[1].0 {
            return Err(format!(
                "output keys not strictly ascending: {} then {}",
                crate::common::brief(&w[0].0),
                crate::common::brief(&w[1].0)
            ));
        }
    }
    let got_keys: Vec<&Vec<u8>> = out.iter().map(|e| &e.0).collect();
    let want_keys: Vec<&Vec<u8>> = m.keys().collect();
    if got_keys != want_keys {
        let missing = want_keys.iter().find(|k| !got_keys.contains(k));
        let extra = got_keys.iter().find(|k| !want_keys.contains(k));
        return Err(format!(
            "output keys are not the distinct inserted keys: got {} keys, want {}; missing {:?}, unexpected {:?}",
            got_keys.len(),
            want_keys.len(),
            missing.map(|k| crate::common::brief(k)),
            extra.map(|k| crate::common::brief(k))
        ));
    }
    for (k, v) in out {
        value_ok(kind, stable, &m[k], v).map_err(|e| format!("key {}: {}", crate::common::brief(k), e))?;
    }
    Ok(())
}

pub fn injected_merge_err(e: &MergeErr) -> bool {
    e.0 == crate::ioinstr::MARKER
}

#[allow(dead_code)]
fn _k(_: ErrKind) {}
