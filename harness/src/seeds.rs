//! Writes the small committed seed corpora of the fuzz targets (deterministic).

use std::path::Path;

use crate::common::{splitmix, write_file, Blob, Codec, EntrySrc, WConf};
use crate::props::c10::to_v1;

pub fn write_all(dir: &str) {
    let dir = Path::new(dir);
    // fuzz_open: valid V2 and V1 files plus an empty input
    let d = dir.join("fuzz_open");
    std::fs::create_dir_all(&d).unwrap();
    std::fs::write(d.join("empty"), b"").unwrap();
    for (i, codec) in Codec::ALL.iter().enumerate() {
        for levels in [0u8, 2] {
            let conf = WConf { codec: *codec, level: 1, block_size: Some(1024), interval: None, levels };
            let src = EntrySrc::List((0..6u8).map(|k| (Blob::Lit(vec![b'a', k]), Blob::Pad { fill: k, n: 300, tail: vec![] })).collect());
            let bytes = write_file(&conf, &src.entries()).unwrap();
            std::fs::write(d.join(format!("v2-{i}-{levels}")), &bytes).unwrap();
            if levels == 0 {
                std::fs::write(d.join(format!("v1-{i}")), to_v1(&bytes).unwrap()).unwrap();
            }
        }
    }
    // structured targets: any byte string decodes; seed with pseudo-random strings of several lengths
    for t in ["fuzz_cursor", "fuzz_writer", "fuzz_sorter"] {
        let d = dir.join(t);
        std::fs::create_dir_all(&d).unwrap();
        std::fs::write(d.join("empty"), b"").unwrap();
        let mut st = crate::common::hash_of(&t);
        for (i, len) in [64usize, 200, 600, 1500, 3000, 4000].iter().enumerate() {
            for j in 0..3 {
                let mut v = Vec::with_capacity(*len);
                while v.len() < *len {
                    v.extend_from_slice(&splitmix(&mut st).to_le_bytes());
                }
                v.truncate(*len);
                std::fs::write(d.join(format!("rand-{i}-{j}")), &v).unwrap();
            }
        }
    }
}
