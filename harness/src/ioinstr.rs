//! Instrumented I/O: sink, source, chunk storage and chunk creator that split, interrupt, fail and log
//! their calls under the control of generated data (a schedule tape and a fault plan).

use std::cell::RefCell;
use std::io::{self, Read, Seek, SeekFrom, Write};
use std::rc::Rc;

use serde::{Deserialize, Serialize};

#[derive(Clone, Copy, Debug, PartialEq, Eq, Hash, PartialOrd, Ord, Serialize, Deserialize)]
pub enum Kind {
    Write,
    Flush,
    Read,
    Seek,
    Create,
    Merge,
}

impl Kind {
    pub const ALL: [Kind; 6] = [Kind::Write, Kind::Flush, Kind::Read, Kind::Seek, Kind::Create, Kind::Merge];
    pub fn idx(self) -> usize {
        self as usize
    }
}

#[derive(Clone, Copy, Debug, PartialEq, Eq, Hash, Serialize, Deserialize)]
pub enum ErrKind {
    Other,
    PermissionDenied,
    BrokenPipe,
    UnexpectedEof,
    WriteZero,
    NotFound,
    InvalidData,
    OutOfMemory,
    TimedOut,
    /// `write` returns Ok(0) (std defines this as failure `WriteZero` for write_all)
    ReturnsZero,
    InvalidInput,
    WouldBlock,
    AlreadyExists,
    Unsupported,
    ConnectionReset,
    AddrInUse,
}

impl ErrKind {
    pub const ALL: [ErrKind; 16] = [
        ErrKind::Other,
        ErrKind::PermissionDenied,
        ErrKind::BrokenPipe,
        ErrKind::UnexpectedEof,
        ErrKind::WriteZero,
        ErrKind::NotFound,
        ErrKind::InvalidData,
        ErrKind::OutOfMemory,
        ErrKind::TimedOut,
        ErrKind::ReturnsZero,
        ErrKind::InvalidInput,
        ErrKind::WouldBlock,
        ErrKind::AlreadyExists,
        ErrKind::Unsupported,
        ErrKind::ConnectionReset,
        ErrKind::AddrInUse,
    ];

    pub fn io(self) -> io::ErrorKind {
        match self {
            ErrKind::Other => io::ErrorKind::Other,
            ErrKind::PermissionDenied => io::ErrorKind::PermissionDenied,
            ErrKind::BrokenPipe => io::ErrorKind::BrokenPipe,
            ErrKind::UnexpectedEof => io::ErrorKind::UnexpectedEof,
            ErrKind::WriteZero | ErrKind::ReturnsZero => io::ErrorKind::WriteZero,
            ErrKind::NotFound => io::ErrorKind::NotFound,
            ErrKind::InvalidData => io::ErrorKind::InvalidData,
            ErrKind::OutOfMemory => io::ErrorKind::OutOfMemory,
            ErrKind::TimedOut => io::ErrorKind::TimedOut,
            ErrKind::InvalidInput => io::ErrorKind::InvalidInput,
            ErrKind::WouldBlock => io::ErrorKind::WouldBlock,
            ErrKind::AlreadyExists => io::ErrorKind::AlreadyExists,
            ErrKind::Unsupported => io::ErrorKind::Unsupported,
            ErrKind::ConnectionReset => io::ErrorKind::ConnectionReset,
            ErrKind::AddrInUse => io::ErrorKind::AddrInUse,
        }
    }
}

pub const MARKER: &str = "verif-injected-fault";

#[derive(Clone, Copy, Debug, PartialEq, Eq, Hash, Serialize, Deserialize)]
pub struct FaultPlan {
    pub kind: Kind,
    /// fail the k-th call (0-based) of that kind
    pub k: u64,
    pub err: ErrKind,
}

#[derive(Clone, Debug, PartialEq, Eq)]
pub enum IoEvent {
    Seek(u64),
    Read { pos: u64, len: usize },
}

#[derive(Default)]
pub struct Ctl {
    pub tape: Vec<u8>,
    pub tape_pos: usize,
    pub fault: Option<FaultPlan>,
    pub fired: bool,
    /// total number of component calls made when the fault fired (including the failing one)
    pub fired_total: u64,
    pub counts: [u64; 6],
    pub log_enabled: bool,
    pub log: Vec<IoEvent>,
    pub live_chunks: i64,
    pub max_live_chunks: i64,
    pub created: u64,
    pub chunk_bytes_written: u64,
    pub partial: u64,
    pub interrupts: u64,
    /// interrupts/partials that happened while a block body was being transferred (more than 8 bytes requested
    /// or a continuation of such a transfer) — used by C11's non-triviality rule
    pub big_partial: u64,
    pub big_interrupts: u64,
    /// chunk storage and merge function use grenad themselves inside every call (re-entrancy)
    pub reentrant: bool,
    /// chunk storage only exposes written bytes to reads after `flush` (like a buffered file)
    pub staging: bool,
    pub reentrant_uses: u64,
    /// the components implement write_vectored / read_vectored natively (gathering / scattering across slices,
    /// with the same short transfers and interruptions) instead of relying on std's defaults
    pub vectored: bool,
    pub vectored_calls: u64,
}

pub type Shared = Rc<RefCell<Ctl>>;

pub fn ctl() -> Shared {
    Rc::new(RefCell::new(Ctl::default()))
}

pub fn ctl_with_tape(tape: &[u8]) -> Shared {
    let c = ctl();
    c.borrow_mut().tape = normalise_tape(tape);
    // half of the schedules drive components that implement vectored I/O natively
    c.borrow_mut().vectored = tape.iter().map(|b| *b as u32).sum::<u32>() % 2 == 1;
    c
}

/// A tape must contain at least one progressing entry, otherwise a retry loop would never end.
pub fn normalise_tape(t: &[u8]) -> Vec<u8> {
    let mut v = t.to_vec();
    if !v.is_empty() && v.iter().all(|b| *b >= INTERRUPT_FROM) {
        v.push(0);
    }
    v
}

pub const INTERRUPT_FROM: u8 = 0xE0;

enum Step {
    Interrupted,
    Transfer(usize),
}

impl Ctl {
    /// counts the call and fires the planned fault if this is the one
    fn enter(&mut self, kind: Kind) -> Option<ErrKind> {
        let n = self.counts[kind.idx()];
        self.counts[kind.idx()] += 1;
        if let Some(f) = self.fault {
            if f.kind == kind && f.k == n && !self.fired {
                self.fired = true;
                self.fired_total = self.counts.iter().sum();
                return Some(f.err);
            }
        }
        None
    }

    pub fn total_calls(&self) -> u64 {
        self.counts.iter().sum()
    }

    fn step(&mut self, want: usize) -> Step {
        if self.tape.is_empty() || want == 0 {
            return Step::Transfer(want);
        }
        let b = self.tape[self.tape_pos % self.tape.len()];
        self.tape_pos += 1;
        if b >= INTERRUPT_FROM {
            self.interrupts += 1;
            if want > 8 {
                self.big_interrupts += 1;
            }
            return Step::Interrupted;
        }
        let n = 1 + (b as usize * (want - 1)) / (INTERRUPT_FROM as usize - 1);
        if n < want {
            self.partial += 1;
            if want > 8 {
                self.big_partial += 1;
            }
        }
        Step::Transfer(n.min(want))
    }
}

pub fn injected(e: ErrKind) -> io::Error {
    io::Error::new(e.io(), MARKER)
}

// ---------------------------------------------------------------------------------------------
// Sink

#[derive(Clone)]
pub struct Sink {
    pub data: Rc<RefCell<Vec<u8>>>,
    pub ctl: Shared,
}

impl Sink {
    pub fn new(ctl: Shared) -> Sink {
        Sink { data: Rc::new(RefCell::new(Vec::new())), ctl }
    }
    pub fn bytes(&self) -> Vec<u8> {
        self.data.borrow().clone()
    }
}

impl Write for Sink {
    fn write(&mut self, buf: &[u8]) -> io::Result<usize> {
        let mut c = self.ctl.borrow_mut();
        if let Some(e) = c.enter(Kind::Write) {
            // Ok(0) is a failure only for a non-empty buffer
            if e == ErrKind::ReturnsZero && !buf.is_empty() {
                return Ok(0);
            }
            return Err(injected(e));
        }
        match c.step(buf.len()) {
            Step::Interrupted => Err(io::Error::new(io::ErrorKind::Interrupted, "verif-interrupted")),
            Step::Transfer(n) => {
                self.data.borrow_mut().extend_from_slice(&buf[..n]);
                Ok(n)
            }
        }
    }

    fn flush(&mut self) -> io::Result<()> {
        let mut c = self.ctl.borrow_mut();
        if let Some(e) = c.enter(Kind::Flush) {
            return Err(injected(e));
        }
        Ok(())
    }

    fn write_vectored(&mut self, bufs: &[io::IoSlice<'_>]) -> io::Result<usize> {
        if !self.ctl.borrow().vectored {
            // std's default: the first non-empty slice only
            let buf = bufs.iter().find(|b| !b.is_empty()).map_or(&[][..], |b| &**b);
            return self.write(buf);
        }
        let mut c = self.ctl.borrow_mut();
        c.vectored_calls += 1;
        let total: usize = bufs.iter().map(|b| b.len()).sum();
        if let Some(e) = c.enter(Kind::Write) {
            if e == ErrKind::ReturnsZero && total > 0 {
                return Ok(0);
            }
            return Err(injected(e));
        }
        match c.step(total) {
            Step::Interrupted => Err(io::Error::new(io::ErrorKind::Interrupted, "verif-interrupted")),
            Step::Transfer(n) => {
                let mut left = n;
                let mut data = self.data.borrow_mut();
                for b in bufs {
                    let k = left.min(b.len());
                    data.extend_from_slice(&b[..k]);
                    left -= k;
                    if left == 0 {
                        break;
                    }
                }
                Ok(n)
            }
        }
    }
}

/// A sink that hands its bytes over only when flushed (like a BufWriter borrowed by the writer, or a staging writer
/// without a flushing Drop): what reaches `committed` is what a reader of the destination would see.
pub struct StagingSink {
    pub staged: Vec<u8>,
    pub committed: Rc<RefCell<Vec<u8>>>,
}

impl StagingSink {
    pub fn new() -> (StagingSink, Rc<RefCell<Vec<u8>>>) {
        let c = Rc::new(RefCell::new(Vec::new()));
        (StagingSink { staged: Vec::new(), committed: c.clone() }, c)
    }
}

impl Write for StagingSink {
    fn write(&mut self, buf: &[u8]) -> io::Result<usize> {
        self.staged.extend_from_slice(buf);
        Ok(buf.len())
    }
    fn flush(&mut self) -> io::Result<()> {
        self.committed.borrow_mut().append(&mut self.staged);
        Ok(())
    }
}

// ---------------------------------------------------------------------------------------------
// Source

#[derive(Clone)]
pub struct Source {
    pub data: Rc<Vec<u8>>,
    pub pos: u64,
    pub ctl: Shared,
    /// seek like an OS file: positions beyond i64::MAX are refused (lseek takes a signed offset), whereas an in-memory
    /// cursor accepts any u64
    pub file_like: bool,
}

impl Source {
    pub fn new(data: Rc<Vec<u8>>, ctl: Shared) -> Source {
        Source { data, pos: 0, ctl, file_like: false }
    }
    pub fn file_like(data: Rc<Vec<u8>>, ctl: Shared) -> Source {
        Source { data, pos: 0, ctl, file_like: true }
    }
}

fn do_seek(len: u64, pos: u64, style: SeekFrom) -> io::Result<u64> {
    let (base, off) = match style {
        SeekFrom::Start(n) => return Ok(n),
        SeekFrom::End(n) => (len, n),
        SeekFrom::Current(n) => (pos, n),
    };
    match base.checked_add_signed(off) {
        Some(n) => Ok(n),
        None => Err(io::Error::new(io::ErrorKind::InvalidInput, "invalid seek to a negative or overflowing position")),
    }
}

impl Read for Source {
    fn read(&mut self, buf: &mut [u8]) -> io::Result<usize> {
        let mut c = self.ctl.borrow_mut();
        if let Some(e) = c.enter(Kind::Read) {
            return Err(injected(e));
        }
        let start = (self.pos as usize).min(self.data.len());
        let avail = self.data.len() - start;
        let want = buf.len().min(avail);
        if want == 0 {
            return Ok(0);
        }
        match c.step(want) {
            Step::Interrupted => Err(io::Error::new(io::ErrorKind::Interrupted, "verif-interrupted")),
            Step::Transfer(n) => {
                buf[..n].copy_from_slice(&self.data[start..start + n]);
                if c.log_enabled {
                    c.log.push(IoEvent::Read { pos: start as u64, len: n });
                }
                self.pos += n as u64;
                Ok(n)
            }
        }
    }

    fn read_vectored(&mut self, bufs: &mut [io::IoSliceMut<'_>]) -> io::Result<usize> {
        if self.ctl.borrow().vectored {
            return self.read_scatter(bufs);
        }
        // std's default: the first non-empty buffer only
        match bufs.iter_mut().find(|b| !b.is_empty()) {
            Some(b) => self.read(b),
            None => self.read(&mut []),
        }
    }
}

impl Source {
    /// scattering read used when `ctl.vectored` is set
    fn read_scatter(&mut self, bufs: &mut [io::IoSliceMut<'_>]) -> io::Result<usize> {
        let mut c = self.ctl.borrow_mut();
        c.vectored_calls += 1;
        if let Some(e) = c.enter(Kind::Read) {
            return Err(injected(e));
        }
        let start = (self.pos as usize).min(self.data.len());
        let total: usize = bufs.iter().map(|b| b.len()).sum();
        let want = total.min(self.data.len() - start);
        if want == 0 {
            return Ok(0);
        }
        match c.step(want) {
            Step::Interrupted => Err(io::Error::new(io::ErrorKind::Interrupted, "verif-interrupted")),
            Step::Transfer(n) => {
                let mut off = 0;
                for b in bufs.iter_mut() {
                    let k = (n - off).min(b.len());
                    b[..k].copy_from_slice(&self.data[start + off..start + off + k]);
                    off += k;
                    if off == n {
                        break;
                    }
                }
                if c.log_enabled {
                    c.log.push(IoEvent::Read { pos: start as u64, len: n });
                }
                self.pos += n as u64;
                Ok(n)
            }
        }
    }
}

impl Seek for Source {
    fn seek(&mut self, style: SeekFrom) -> io::Result<u64> {
        let mut c = self.ctl.borrow_mut();
        if let Some(e) = c.enter(Kind::Seek) {
            return Err(injected(e));
        }
        let n = do_seek(self.data.len() as u64, self.pos, style)?;
        if self.file_like && n > i64::MAX as u64 {
            return Err(io::Error::new(io::ErrorKind::InvalidInput, "Invalid argument (file-like source: offset beyond i64::MAX)"));
        }
        self.pos = n;
        if c.log_enabled {
            c.log.push(IoEvent::Seek(n));
        }
        Ok(n)
    }
}

/// A source whose clones share one file position (like `&File` or `File::try_clone()` handles).
#[derive(Clone)]
pub struct SharedSource {
    pub data: Rc<Vec<u8>>,
    pub pos: Rc<std::cell::Cell<u64>>,
}

impl SharedSource {
    pub fn new(data: Rc<Vec<u8>>) -> SharedSource {
        SharedSource { data, pos: Rc::new(std::cell::Cell::new(0)) }
    }
}

impl Read for SharedSource {
    fn read(&mut self, buf: &mut [u8]) -> io::Result<usize> {
        let start = (self.pos.get() as usize).min(self.data.len());
        let n = buf.len().min(self.data.len() - start);
        buf[..n].copy_from_slice(&self.data[start..start + n]);
        self.pos.set(self.pos.get() + n as u64);
        Ok(n)
    }
}

impl Seek for SharedSource {
    fn seek(&mut self, style: SeekFrom) -> io::Result<u64> {
        let n = do_seek(self.data.len() as u64, self.pos.get(), style)?;
        self.pos.set(n);
        Ok(n)
    }
}

/// A source that itself uses grenad (on small compressed files, all codecs in turn) inside every `read` and `seek`, the
/// way a reader backed by another grenad file would: the library must be re-entrant on one thread.
#[derive(Clone)]
pub struct ReentrantSource {
    pub data: Rc<Vec<u8>>,
    pub pos: u64,
    pub calls: Rc<std::cell::Cell<u64>>,
}

fn inner_files() -> &'static Vec<Vec<u8>> {
    static F: std::sync::OnceLock<Vec<Vec<u8>>> = std::sync::OnceLock::new();
    F.get_or_init(|| {
        crate::common::Codec::ALL
            .iter()
            .map(|c| {
                let conf = crate::common::WConf { codec: *c, level: 1, block_size: Some(1024), interval: None, levels: 1 };
                let entries: crate::common::Entries = (0..40u8).map(|i| (vec![b'i', i], vec![i; 100])).collect();
                crate::common::write_file(&conf, &entries).expect("inner file")
            })
            .collect()
    })
}

/// one small use of grenad itself (a lookup in an in-memory file; the six codecs in turn)
pub fn reenter(n: u64) -> io::Result<()> {
    let f = &inner_files()[(n % 6) as usize];
    let r = grenad::Reader::new(io::Cursor::new(f.as_slice())).map_err(|e| io::Error::new(io::ErrorKind::Other, format!("inner grenad use failed: {e}")))?;
    let mut c = r.into_cursor().map_err(|e| io::Error::new(io::ErrorKind::Other, format!("inner grenad use failed: {e}")))?;
    let probe = [b'i', (n % 40) as u8];
    match c.move_on_key_greater_than_or_equal_to(probe) {
        Ok(Some((k, _))) if k == probe => Ok(()),
        other => Err(io::Error::new(io::ErrorKind::Other, format!("inner grenad use gave a wrong answer: {:?}", other.map(|o| o.map(|(k, _)| k.to_vec()))))),
    }
}

impl ReentrantSource {
    pub fn new(data: Rc<Vec<u8>>) -> ReentrantSource {
        ReentrantSource { data, pos: 0, calls: Rc::new(std::cell::Cell::new(0)) }
    }

    fn reenter(&self) -> io::Result<()> {
        let n = self.calls.get();
        self.calls.set(n + 1);
        return reenter(n);
        #[allow(unreachable_code)]
        let f = &inner_files()[(n % 6) as usize];
        let r = grenad::Reader::new(io::Cursor::new(f.as_slice())).map_err(|e| io::Error::new(io::ErrorKind::Other, format!("inner grenad use failed: {e}")))?;
        let mut c = r.into_cursor().map_err(|e| io::Error::new(io::ErrorKind::Other, format!("inner grenad use failed: {e}")))?;
        let probe = [b'i', (n % 40) as u8];
        match c.move_on_key_greater_than_or_equal_to(probe) {
            Ok(Some((k, _))) if k == probe => Ok(()),
            other => Err(io::Error::new(io::ErrorKind::Other, format!("inner grenad use gave a wrong answer: {:?}", other.map(|o| o.map(|(k, _)| k.to_vec()))))),
        }
    }
}

impl Read for ReentrantSource {
    fn read(&mut self, buf: &mut [u8]) -> io::Result<usize> {
        self.reenter()?;
        let start = (self.pos as usize).min(self.data.len());
        // short reads too, so that several inner uses happen within one outer block load
        let n = buf.len().min(self.data.len() - start).min(997);
        buf[..n].copy_from_slice(&self.data[start..start + n]);
        self.pos += n as u64;
        Ok(n)
    }
}

impl Seek for ReentrantSource {
    fn seek(&mut self, style: SeekFrom) -> io::Result<u64> {
        self.reenter()?;
        let n = do_seek(self.data.len() as u64, self.pos, style)?;
        self.pos = n;
        Ok(n)
    }
}

// ---------------------------------------------------------------------------------------------
// Chunk storage and creator

pub struct Chunk {
    pub data: Vec<u8>,
    /// bytes written but not yet flushed (staging mode)
    pub staged: Vec<u8>,
    pub pos: u64,
    pub ctl: Shared,
}

impl Drop for Chunk {
    fn drop(&mut self) {
        if let Ok(mut c) = self.ctl.try_borrow_mut() {
            c.live_chunks -= 1;
        }
    }
}

impl Write for Chunk {
    fn write(&mut self, buf: &[u8]) -> io::Result<usize> {
        let mut c = self.ctl.borrow_mut();
        if let Some(e) = c.enter(Kind::Write) {
            // Ok(0) is a failure only for a non-empty buffer
            if e == ErrKind::ReturnsZero && !buf.is_empty() {
                return Ok(0);
            }
            return Err(injected(e));
        }
        match c.step(buf.len()) {
            Step::Interrupted => Err(io::Error::new(io::ErrorKind::Interrupted, "verif-interrupted")),
            Step::Transfer(n) => {
                if c.reentrant {
                    c.reentrant_uses += 1;
                    let k = c.reentrant_uses;
                    if k % 5 == 0 {
                        drop(c);
                        reenter(k / 5)?;
                        c = self.ctl.borrow_mut();
                    }
                }
                // staging mode: sequential appends are held back until flush
                if c.staging && self.pos as usize == self.data.len() + self.staged.len() {
                    self.staged.extend_from_slice(&buf[..n]);
                    self.pos += n as u64;
                    c.chunk_bytes_written += n as u64;
                    return Ok(n);
                }
                let p = self.pos as usize;
                if p > self.data.len() {
                    self.data.resize(p, 0);
                }
                let overlap = (self.data.len() - p).min(n);
                self.data[p..p + overlap].copy_from_slice(&buf[..overlap]);
                self.data.extend_from_slice(&buf[overlap..n]);
                self.pos += n as u64;
                c.chunk_bytes_written += n as u64;
                Ok(n)
            }
        }
    }

    fn flush(&mut self) -> io::Result<()> {
        let mut c = self.ctl.borrow_mut();
        if let Some(e) = c.enter(Kind::Flush) {
            return Err(injected(e));
        }
        let mut st = std::mem::take(&mut self.staged);
        self.data.append(&mut st);
        Ok(())
    }
}

impl Read for Chunk {
    fn read(&mut self, buf: &mut [u8]) -> io::Result<usize> {
        let mut c = self.ctl.borrow_mut();
        if let Some(e) = c.enter(Kind::Read) {
            return Err(injected(e));
        }
        let start = (self.pos as usize).min(self.data.len());
        let want = buf.len().min(self.data.len() - start);
        if want == 0 {
            return Ok(0);
        }
        match c.step(want) {
            Step::Interrupted => Err(io::Error::new(io::ErrorKind::Interrupted, "verif-interrupted")),
            Step::Transfer(n) => {
                if c.reentrant {
                    c.reentrant_uses += 1;
                    let k = c.reentrant_uses;
                    drop(c);
                    if k % 5 == 0 {
                        reenter(k / 5)?;
                    }
                }
                buf[..n].copy_from_slice(&self.data[start..start + n]);
                self.pos += n as u64;
                Ok(n)
            }
        }
    }
}

impl Seek for Chunk {
    fn seek(&mut self, style: SeekFrom) -> io::Result<u64> {
        let mut c = self.ctl.borrow_mut();
        if let Some(e) = c.enter(Kind::Seek) {
            return Err(injected(e));
        }
        let n = do_seek(self.data.len() as u64, self.pos, style)?;
        self.pos = n;
        Ok(n)
    }
}

#[derive(Clone)]
pub struct Creator {
    pub ctl: Shared,
}

impl grenad::ChunkCreator for Creator {
    type Chunk = Chunk;
    type Error = io::Error;

    fn create(&self) -> Result<Chunk, io::Error> {
        let mut c = self.ctl.borrow_mut();
        if let Some(e) = c.enter(Kind::Create) {
            return Err(injected(e));
        }
        c.created += 1;
        c.live_chunks += 1;
        c.max_live_chunks = c.max_live_chunks.max(c.live_chunks);
        Ok(Chunk { data: Vec::new(), staged: Vec::new(), pos: 0, ctl: self.ctl.clone() })
    }
}
