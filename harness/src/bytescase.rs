//! Byte string -> structured case decoders shared by the libFuzzer targets and by `vcheck --replay-bytes`.
//! Hand-written on top of `arbitrary::Unstructured` (the derive macro is not available offline).

use arbitrary::{Result, Unstructured};

use crate::common::{Blob, Codec, EntrySrc, FileSpec, WConf};
use crate::model::{Op, Probe};
use crate::props::{c07, c18};
use crate::sm::{CreatorKind, MergeKind, SConf, Threshold};

fn blob_key(u: &mut Unstructured) -> Result<Blob> {
    Ok(match u.int_in_range(0..=9u8)? {
        0..=3 => {
            let n = u.int_in_range(0..=4usize)?;
            let mut v = Vec::new();
            for _ in 0..n {
                v.push(*u.choose(&[0x00u8, 0x01, 0x7f, 0xfe, 0xff])?);
            }
            Blob::Lit(v)
        }
        4..=6 => {
            let n = u.int_in_range(0..=10usize)?;
            Blob::Lit(u.bytes(n)?.to_vec())
        }
        7..=8 => Blob::Pad { fill: 0x6b, n: u.int_in_range(480..=520u32)?, tail: u.bytes(2)?.to_vec() },
        _ => Blob::Pad { fill: *u.choose(&[0x61u8, 0xff, 0x00])?, n: u.int_in_range(100..=1500u32)?, tail: u.bytes(1)?.to_vec() },
    })
}

fn blob_val(u: &mut Unstructured) -> Result<Blob> {
    Ok(match u.int_in_range(0..=11u8)? {
        0..=1 => Blob::Lit(vec![]),
        2..=6 => {
            let n = u.int_in_range(1..=16usize)?;
            Blob::Lit(u.bytes(n)?.to_vec())
        }
        7 => Blob::Rand { n: u.int_in_range(80..=130u32)?, seed: u.arbitrary()? },
        8 => Blob::Pad { fill: u.arbitrary()?, n: u.int_in_range(900..=1100u32)?, tail: vec![] },
        9 => Blob::Rand { n: u.int_in_range(1024..=6000u32)?, seed: u.arbitrary()? },
        10 => Blob::Pad { fill: u.arbitrary()?, n: u.int_in_range(0..=300u32)?, tail: vec![] },
        _ => Blob::Trailer { pad: u.int_in_range(0..=40u16)?, v2: u.arbitrary()?, codec: u.int_in_range(0..=6u8)?, count: u.int_in_range(0..=999u64)? },
    })
}

pub fn wconf(u: &mut Unstructured, max_levels: u8) -> Result<WConf> {
    let codec = *u.choose(&Codec::ALL)?;
    let level = match codec {
        Codec::Zlib => u.int_in_range(0..=9u32)?,
        Codec::Zstd => u.int_in_range(0..=6u32)?,
        _ => u.arbitrary()?,
    };
    let block_size = match u.int_in_range(0..=5u8)? {
        0 => None,
        1..=3 => Some(1024),
        4 => Some(*u.choose(&[0usize, 1, 1023, 1025, 1500, 4096, 8192, 65536, usize::MAX])?),
        _ => Some(u.int_in_range(0..=20000usize)?),
    };
    let interval = match u.int_in_range(0..=3u8)? {
        0 => None,
        1 => Some(*u.choose(&[1usize, 2, 3, 7, 8, 64, usize::MAX])?),
        _ => Some(u.int_in_range(1..=20usize)?),
    };
    let levels = match u.int_in_range(0..=9u8)? {
        0..=1 => 0,
        2 => 1,
        3..=5 => 2,
        6..=7 => 3,
        8 => u.int_in_range(4..=8u8)?,
        // hundreds of index levels cost hundreds of block loads per cursor: kept rare
        _ => {
            if u.int_in_range(0..=3u8)? == 0 {
                *u.choose(&[254u8, 255, 100])?
            } else {
                u.int_in_range(4..=9u8)?
            }
        }
    }
    .min(max_levels);
    Ok(WConf { codec, level, block_size, interval, levels })
}

pub fn entry_src(u: &mut Unstructured, max: usize) -> Result<EntrySrc> {
    if u.int_in_range(0..=7u8)? == 0 {
        return Ok(EntrySrc::Counter {
            start: u.arbitrary()?,
            stride: u.int_in_range(1..=1000u32)?,
            n: u.int_in_range(0..=(max as u32 * 4))?,
            pad: *u.choose(&[0u16, 0, 3, 500])?,
            fill: u.arbitrary()?,
            vlen: u.int_in_range(0..=64u16)?,
            vkind: u.int_in_range(0..=3u8)?,
        });
    }
    let n = u.int_in_range(0..=max)?;
    let mut l = Vec::with_capacity(n);
    for _ in 0..n {
        if u.is_empty() {
            break;
        }
        l.push((blob_key(u)?, blob_val(u)?));
    }
    Ok(EntrySrc::List(l))
}

pub fn file_spec(u: &mut Unstructured, max_entries: usize, max_levels: u8) -> Result<FileSpec> {
    Ok(FileSpec { conf: wconf(u, max_levels)?, src: entry_src(u, max_entries)? })
}

pub fn probe(u: &mut Unstructured) -> Result<Probe> {
    Ok(match u.int_in_range(0..=9u8)? {
        0..=1 => Probe::Key(u.arbitrary()?),
        2..=3 => Probe::Succ(u.arbitrary()?),
        4..=5 => Probe::Pred(u.arbitrary()?),
        6 => Probe::PrefixOf(u.arbitrary()?, u.arbitrary()?),
        7 => Probe::Mutate(u.arbitrary()?, u.arbitrary()?, u.arbitrary()?),
        8 => match u.int_in_range(0..=2u8)? {
            0 => Probe::Empty,
            1 => Probe::AfterLast,
            _ => Probe::AllFF,
        },
        _ => Probe::Lit(blob_key(u)?),
    })
}

pub fn ops(u: &mut Unstructured, max: usize) -> Result<Vec<Op>> {
    let mut v = Vec::new();
    while v.len() < max && !u.is_empty() {
        match u.int_in_range(0..=16u8)? {
            0 => v.push(Op::First),
            1 => v.push(Op::Last),
            2..=3 => {
                let n = u.int_in_range(1..=30usize)?;
                v.extend(std::iter::repeat(Op::Next).take(n));
            }
            4..=5 => {
                let n = u.int_in_range(1..=30usize)?;
                v.extend(std::iter::repeat(Op::Prev).take(n));
            }
            6 => v.push(Op::Next),
            7 => v.push(Op::Prev),
            8..=9 => v.push(Op::Ge(probe(u)?)),
            10..=11 => v.push(Op::Le(probe(u)?)),
            12 => v.push(Op::Eq(probe(u)?)),
            13 => v.push(Op::Reset),
            14 => v.push(Op::Current),
            15 => v.push(Op::Swap),
            _ => v.push(Op::CloneSwitch),
        }
    }
    v.truncate(max);
    Ok(v)
}

/// fuzz_cursor input
pub fn cursor_case(data: &[u8]) -> Result<(FileSpec, Vec<Op>, Vec<Probe>)> {
    let mut u = Unstructured::new(data);
    let spec = file_spec(&mut u, 40, 6)?;
    let n = u.int_in_range(0..=8usize)?;
    let mut probes = Vec::new();
    for _ in 0..n {
        probes.push(probe(&mut u)?);
    }
    let ops = ops(&mut u, 200)?;
    Ok((spec, ops, probes))
}

/// fuzz_writer input
pub fn writer_case(data: &[u8]) -> Result<(FileSpec, Vec<c18::Perturb>)> {
    let mut u = Unstructured::new(data);
    let n = u.int_in_range(0..=3usize)?;
    let mut ps = Vec::new();
    for _ in 0..n {
        ps.push(match u.int_in_range(0..=4u8)? {
            0 => c18::Perturb::Swap(u.arbitrary()?),
            1 => c18::Perturb::Dup(u.arbitrary()?),
            2 => c18::Perturb::AfterCut(u.arbitrary()?, u.int_in_range(1..=3u8)?),
            3 => c18::Perturb::Reverse(u.arbitrary()?, u.arbitrary()?),
            _ => c18::Perturb::EqualNext(u.arbitrary()?),
        });
    }
    let spec = file_spec(&mut u, 60, 255)?;
    Ok((spec, ps))
}

/// fuzz_sorter input
pub fn sorter_case(data: &[u8]) -> Result<(SConf, MergeKind, c07::InsertSrc)> {
    let mut u = Unstructured::new(data);
    let thr = u.int_in_range(256..=16384usize)?;
    let cap = u.int_in_range(16..=4096usize)?.min(thr);
    let conf = SConf {
        threshold: Threshold::Exact(thr),
        init_cap: Some(cap),
        allow_realloc: u.arbitrary()?,
        max_nb_chunks: *u.choose(&[1usize, 2, 3, 5, 25])?,
        stable: u.arbitrary()?,
        parallel: false,
        chunk_codec: match u.int_in_range(0..=3u8)? {
            0 => None,
            _ => Some(*u.choose(&[Codec::None, Codec::Snappy, Codec::Lz4, Codec::Zlib, Codec::SnappyPre05])?),
        },
        chunk_level: None,
        block_size: *u.choose(&[None, Some(1024usize), Some(0), Some(5000)])?,
        interval: *u.choose(&[None, Some(1usize), Some(3), Some(usize::MAX)])?,
        levels: *u.choose(&[None, Some(0u8), Some(1), Some(2), Some(3)])?,
        creator: CreatorKind::CursorVec,
        order: 0,
    };
    let kind = *u.choose(&MergeKind::ALL)?;
    let n = u.int_in_range(0..=120usize)?;
    let mut l = Vec::new();
    for _ in 0..n {
        if u.is_empty() {
            break;
        }
        let k = match u.int_in_range(0..=5u8)? {
            0..=2 => Blob::Lit(vec![b'k', u.int_in_range(0..=11u8)?]),
            3 => Blob::Lit(vec![]),
            4 => Blob::Pad { fill: 0x6c, n: u.int_in_range(100..=400u32)?, tail: vec![u.int_in_range(0..=2u8)?] },
            _ => blob_key(&mut u)?,
        };
        let v = match u.int_in_range(0..=7u8)? {
            0 => Blob::Lit(vec![]),
            1..=4 => {
                let n = u.int_in_range(1..=12usize)?;
                Blob::Lit(u.bytes(n)?.to_vec())
            }
            5 => Blob::Pad { fill: u.arbitrary()?, n: u.int_in_range(20..=300u32)?, tail: vec![] },
            6 => Blob::Rand { n: u.int_in_range(300..=5000u32)?, seed: u.arbitrary()? },
            _ => Blob::Pad { fill: u.arbitrary()?, n: u.int_in_range(5000..=40000u32)?, tail: vec![9] },
        };
        l.push((k, v));
    }
    Ok((conf, kind, c07::InsertSrc::List(l)))
}
