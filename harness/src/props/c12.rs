//! C12 — any failure of a user-supplied component surfaces as Err from the current call.
//!
//! For every generated scenario a fault-free run counts the calls made to each component kind (write, flush,
//! read, seek, create, merge); then for EVERY position k of EVERY kind the scenario is re-run with the k-th call
//! of that kind failing, and the public call in progress must return the corresponding error.

use std::convert::Infallible;
use std::io;
use std::rc::Rc;

use proptest::collection::vec;
use proptest::prelude::*;
use serde::{Deserialize, Serialize};
use serde_json::json;

use crate::common::{catch, hash_of, write_file, Check, Entries, Fail, FileSpec, WConf};
use crate::gen::{self, Tier};
use crate::ioinstr::{self, Creator, ErrKind, FaultPlan, Kind, Shared, Sink, Source, MARKER};
use crate::model::Probe;
use crate::props::c04::{range_strategy, BoundSpec};
use crate::props::c05::{prefix_strategy, PrefixSpec};
use crate::props::c06;
use crate::props::c07::{self, InsertSrc};
use crate::rd::{self, COp};
use crate::runner::{stage, Obs, Prop, Stage};
use crate::sm::{self, CreatorKind, MergeErr, MergeKind, SConf, MF};

pub struct C12;

#[derive(Clone, Debug, Hash, Serialize, Deserialize)]
pub enum Scenario {
    Writer { spec: FileSpec },
    Reader { spec: FileSpec, probes: Vec<Probe>, ranges: Vec<(BoundSpec, BoundSpec)>, prefixes: Vec<PrefixSpec> },
    Merger { case: c06::Case, into_writer: bool },
    Sorter { conf: SConf, kind: MergeKind, src: InsertSrc, exit: u8, out_conf: WConf },
}

#[derive(Clone, Debug, Hash, Serialize, Deserialize)]
pub struct Case {
    pub scenario: Scenario,
    pub errs: Vec<ErrKind>,
}

// ---------------------------------------------------------------------------------------------
// classification of results

#[derive(Debug, Clone, PartialEq)]
pub enum CallRes {
    Io(io::ErrorKind, bool),
    Merge(bool),
    Other(String),
}

pub trait ErrInfo {
    fn info(&self) -> CallRes;
}

impl ErrInfo for io::Error {
    fn info(&self) -> CallRes {
        // the injected payload may sit anywhere in the source chain of a re-wrapped error
        let mut marker = self.to_string().contains(MARKER);
        let mut src: Option<&(dyn std::error::Error + 'static)> = self.get_ref().map(|e| e as &(dyn std::error::Error + 'static));
        while let Some(e) = src {
            marker |= e.to_string().contains(MARKER);
            src = e.source();
        }
        CallRes::Io(self.kind(), marker)
    }
}

impl ErrInfo for grenad::Error<Infallible> {
    fn info(&self) -> CallRes {
        match self {
            grenad::Error::Io(e) => e.info(),
            other => CallRes::Other(format!("{:?}", other)),
        }
    }
}

impl ErrInfo for grenad::Error<MergeErr> {
    fn info(&self) -> CallRes {
        match self {
            grenad::Error::Io(e) => e.info(),
            grenad::Error::Merge(m) => CallRes::Merge(sm::injected_merge_err(m)),
            other => CallRes::Other(format!("{:?}", other)),
        }
    }
}

pub struct Judge {
    pub ctl: Shared,
    pub plan: Option<FaultPlan>,
    pub scenario: &'static str,
    pub call_no: usize,
    pub verdict: Option<Fail>,
    pub stopped: bool,
    pub fired_in_call: Option<usize>,
    pub mid_call: bool,
    pub marker_survived: bool,
}

impl Judge {
    pub fn new(ctl: Shared, plan: Option<FaultPlan>, scenario: &'static str) -> Judge {
        Judge { ctl, plan, scenario, call_no: 0, verdict: None, stopped: false, fired_in_call: None, mid_call: false, marker_survived: false }
    }

    fn plan_str(&self) -> String {
        match self.plan {
            Some(p) => format!("{:?} call #{} failing with {:?}", p.kind, p.k, p.err),
            None => "no fault".into(),
        }
    }

    fn violate(&mut self, what: &str, name: &str, msg: String) {
        let kind = self.plan.map(|p| format!("{:?}", p.kind)).unwrap_or_else(|| "none".into());
        self.verdict = Some(Fail::new(
            format!("c12:{what}:{}:{kind}", self.scenario),
            format!("{} scenario, {}: public call #{} `{name}`: {msg}", self.scenario, self.plan_str(), self.call_no),
        ));
        self.stopped = true;
    }

    /// Runs one public call. Returns its value when the scenario may continue.
    pub fn call<T, E: ErrInfo>(&mut self, name: &str, f: impl FnOnce() -> Result<T, E>) -> Option<T> {
        if self.stopped {
            return None;
        }
        let (fired_before, c0) = {
            let c = self.ctl.borrow();
            (c.fired, c.total_calls())
        };
        let r = catch(f);
        let (fired_after, fired_total) = {
            let c = self.ctl.borrow();
            (c.fired, c.fired_total)
        };
        let fired_now = fired_after && !fired_before;
        let no = self.call_no;
        self.call_no += 1;
        match r {
            Err(p) => {
                self.violate("panic", name, format!("panicked: {p}"));
                None
            }
            Ok(Ok(v)) => {
                if fired_now {
                    self.violate("swallowed", name, "the component failed during this call but the call reported success".into());
                    None
                } else {
                    Some(v)
                }
            }
            Ok(Err(e)) => {
                let info = e.info();
                if !fired_now {
                    self.violate("spurious-error", name, format!("returned an error although no component failed during it: {:?}", info));
                    return None;
                }
                let plan = self.plan.unwrap();
                let ok = match (&info, plan.kind) {
                    (CallRes::Merge(true), Kind::Merge) => true,
                    (CallRes::Io(k, marker), kind) if kind != Kind::Merge => {
                        self.marker_survived = *marker;
                        // "carrying that failure": same ErrorKind, or the injected error itself inside a wrapper
                        *k == plan.err.io() || *marker
                    }
                    _ => false,
                };
                if !ok {
                    self.violate("wrong-error", name, format!("returned {:?}, which does not carry the injected failure", info));
                    return None;
                }
                self.fired_in_call = Some(no);
                self.mid_call = fired_total >= c0 + 2;
                self.stopped = true;
                None
            }
        }
    }
}

// ---------------------------------------------------------------------------------------------
// scenarios

fn run_writer(spec: &FileSpec, entries: &Entries, j: &mut Judge) -> Option<()> {
    let sink = Sink::new(j.ctl.clone());
    let mut w = spec.conf.builder().build(sink);
    for (k, v) in entries {
        j.call("Writer::insert", || w.insert(k, v))?;
    }
    j.call("Writer::into_inner", || w.into_inner())?;
    Some(())
}

#[allow(clippy::too_many_arguments)]
fn run_reader(bytes: &Rc<Vec<u8>>, entries: &Entries, probes: &[Probe], ranges: &[(BoundSpec, BoundSpec)], prefixes: &[PrefixSpec], j: &mut Judge) -> Option<()> {
    let src = Source::new(bytes.clone(), j.ctl.clone());
    let reader = j.call("Reader::new", || grenad::Reader::new(src))?;
    let mut c = j.call("Reader::into_cursor", || reader.clone().into_cursor())?;
    let mut guard = 0;
    while j.call("move_on_next", || c.move_on_next().map(rd::own))?.is_some() {
        guard += 1;
        if guard > entries.len() + 1 {
            break;
        }
    }
    c.reset();
    guard = 0;
    while j.call("move_on_prev", || c.move_on_prev().map(rd::own))?.is_some() {
        guard += 1;
        if guard > entries.len() + 1 {
            break;
        }
    }
    for p in probes {
        let q = p.bytes(entries);
        for op in [COp::Ge(q.clone()), COp::Le(q.clone()), COp::Eq(q.clone()), COp::Next, COp::Prev] {
            match &op {
                COp::Ge(q) => j.call("move_on_key_greater_than_or_equal_to", || c.move_on_key_greater_than_or_equal_to(q).map(rd::own))?,
                COp::Le(q) => j.call("move_on_key_lower_than_or_equal_to", || c.move_on_key_lower_than_or_equal_to(q).map(rd::own))?,
                COp::Eq(q) => j.call("move_on_key_equal_to", || c.move_on_key_equal_to(q).map(rd::own))?,
                COp::Next => j.call("move_on_next", || c.move_on_next().map(rd::own))?,
                _ => j.call("move_on_prev", || c.move_on_prev().map(rd::own))?,
            };
        }
    }
    j.call("move_on_first", || c.move_on_first().map(rd::own))?;
    j.call("move_on_last", || c.move_on_last().map(rd::own))?;
    for (a, b) in ranges {
        let r = (a.materialise(entries), b.materialise(entries));
        let mut it = j.call("Reader::into_range_iter", || reader.clone().into_range_iter(r.clone()))?;
        while j.call("RangeIter::next", || it.next().map(rd::own))?.is_some() {}
        let mut it = j.call("Reader::into_rev_range_iter", || reader.clone().into_rev_range_iter(r.clone()))?;
        while j.call("RevRangeIter::next", || it.next().map(rd::own))?.is_some() {}
    }
    for p in prefixes {
        let p = p.bytes(entries);
        let mut it = j.call("Reader::into_prefix_iter", || reader.clone().into_prefix_iter(p.clone()))?;
        while j.call("PrefixIter::next", || it.next().map(rd::own))?.is_some() {}
        let mut it = j.call("Reader::into_rev_prefix_iter", || reader.clone().into_rev_prefix_iter(p.clone()))?;
        while j.call("RevPrefixIter::next", || it.next().map(rd::own))?.is_some() {}
    }
    Some(())
}

fn run_merger(files: &[Rc<Vec<u8>>], kind: MergeKind, into_writer: bool, out_conf: &WConf, j: &mut Judge) -> Option<()> {
    let mut cursors = Vec::new();
    for f in files {
        let src = Source::new(f.clone(), j.ctl.clone());
        let r = j.call("Reader::new", || grenad::Reader::new(src))?;
        cursors.push(j.call("Reader::into_cursor", || r.into_cursor())?);
    }
    let mut b = grenad::Merger::builder(MF::with_ctl(kind, j.ctl.clone()));
    b.extend(cursors);
    let m = b.build();
    if into_writer {
        let sink = Sink::new(j.ctl.clone());
        let mut w = out_conf.builder().build(sink);
        j.call("Merger::write_into_stream_writer", || m.write_into_stream_writer(&mut w))?;
        j.call("Writer::into_inner", || w.into_inner())?;
    } else {
        let mut it = j.call("Merger::into_stream_merger_iter", || m.into_stream_merger_iter())?;
        while j.call("MergerIter::next", || it.next().map(rd::own))?.is_some() {}
    }
    Some(())
}

fn run_sorter(conf: &SConf, kind: MergeKind, inserts: &[(Vec<u8>, Vec<u8>)], exit: u8, out_conf: &WConf, j: &mut Judge) -> Option<()> {
    // `chunk_creator` is one more commuting setter: for order >= 6 it is called after the others
    let b = if conf.order >= 6 {
        let mut b0 = grenad::Sorter::builder(MF::with_ctl(kind, j.ctl.clone()));
        conf.apply(&mut b0);
        b0.chunk_creator(Creator { ctl: j.ctl.clone() })
    } else {
        let mut b = grenad::Sorter::builder(MF::with_ctl(kind, j.ctl.clone())).chunk_creator(Creator { ctl: j.ctl.clone() });
        conf.apply(&mut b);
        b
    };
    let mut s = b.build();
    for (k, v) in inserts {
        j.call("Sorter::insert", || s.insert(k, v))?;
    }
    match exit % 3 {
        0 => {
            let mut it = j.call("Sorter::into_stream_merger_iter", || s.into_stream_merger_iter())?;
            while j.call("MergerIter::next", || it.next().map(rd::own))?.is_some() {}
        }
        1 => {
            let sink = Sink::new(j.ctl.clone());
            let mut w = out_conf.builder().build(sink);
            j.call("Sorter::write_into_stream_writer", || s.write_into_stream_writer(&mut w))?;
            j.call("Writer::into_inner", || w.into_inner())?;
        }
        _ => {
            let cursors = j.call("Sorter::into_reader_cursors", || s.into_reader_cursors())?;
            for mut c in cursors {
                while j.call("move_on_next", || c.move_on_next().map(rd::own))?.is_some() {}
            }
        }
    }
    Some(())
}

struct Prepared {
    entries: Entries,
    files: Vec<Rc<Vec<u8>>>,
    inserts: Vec<(Vec<u8>, Vec<u8>)>,
}

fn prepare(s: &Scenario) -> Check<Prepared> {
    Ok(match s {
        Scenario::Writer { spec } => Prepared { entries: spec.src.entries(), files: vec![], inserts: vec![] },
        Scenario::Reader { spec, .. } => {
            let entries = spec.src.entries();
            let bytes = write_file(&spec.conf, &entries)?;
            Prepared { entries, files: vec![Rc::new(bytes)], inserts: vec![] }
        }
        Scenario::Merger { case, .. } => {
            let srcs = c06::materialise(case);
            let mut files = Vec::new();
            for (i, e) in srcs.iter().enumerate() {
                files.push(Rc::new(write_file(&case.sources[i].conf, e)?));
            }
            Prepared { entries: vec![], files, inserts: vec![] }
        }
        Scenario::Sorter { kind, src, .. } => Prepared { entries: vec![], files: vec![], inserts: c07::prepared(*kind, false, src) },
    })
}

fn execute(s: &Scenario, p: &Prepared, j: &mut Judge) {
    let _ = match s {
        Scenario::Writer { spec } => run_writer(spec, &p.entries, j),
        Scenario::Reader { probes, ranges, prefixes, .. } => run_reader(&p.files[0], &p.entries, probes, ranges, prefixes, j),
        Scenario::Merger { case, into_writer } => run_merger(&p.files, case.kind, *into_writer, &case.out_conf, j),
        Scenario::Sorter { conf, kind, exit, out_conf, .. } => run_sorter(conf, *kind, &p.inserts, *exit, out_conf, j),
    };
}

fn name_of(s: &Scenario) -> &'static str {
    match s {
        Scenario::Writer { .. } => "writer",
        Scenario::Reader { .. } => "reader",
        Scenario::Merger { .. } => "merger",
        Scenario::Sorter { .. } => "sorter",
    }
}

fn small_file() -> BoxedStrategy<FileSpec> {
    let src = prop_oneof![
        3 => vec((gen::key_ascii(), gen::val_any(2500)), 0..=14).prop_map(crate::common::EntrySrc::List),
        2 => gen::deep_small_src(10),
        1 => vec((gen::key_tiny(), gen::val_small()), 0..=20).prop_map(crate::common::EntrySrc::List),
    ];
    (gen::wconf_light(), src)
        .prop_map(|(mut conf, src)| {
            if gen::heavy(&conf) {
                conf.level = 3;
            }
            FileSpec { conf, src }
        })
        .boxed()
}

impl Prop for C12 {
    type Case = Case;

    fn id(&self) -> &'static str {
        "C12"
    }

    fn level(&self) -> &'static str {
        "fault_enumeration"
    }

    fn stages(&self, tier: Tier) -> Vec<Stage<Case>> {
        let errs = vec(prop::sample::select(&ErrKind::ALL[..]), 2..=7);
        let writer = small_file().prop_map(|spec| Scenario::Writer { spec });
        let reader = (small_file(), vec(gen::probe(), 0..4), vec(range_strategy(), 0..2), vec(prefix_strategy(), 0..2))
            .prop_map(|(spec, probes, ranges, prefixes)| Scenario::Reader { spec, probes, ranges, prefixes });
        let universe = prop_oneof![
            gen::list_src(gen::key_ascii(), Just(crate::common::Blob::Lit(vec![])).boxed(), 30),
            gen::list_src(gen::key_half_block(), Just(crate::common::Blob::Lit(vec![])).boxed(), 16),
        ];
        let source = (1u8..4, vec(any::<u8>(), 1..20), gen::wconf_light()).prop_map(|(density, mask, mut conf)| {
            if gen::heavy(&conf) {
                conf.level = 3;
            }
            c06::SourceSpec { density, mask, conf }
        });
        let merger = (universe, vec(source, 1..=4), prop::sample::select(&MergeKind::ALL[..]), any::<bool>(), gen::wconf_light()).prop_map(|(universe, sources, kind, into_writer, mut out_conf)| {
            if gen::heavy(&out_conf) {
                out_conf.level = 3;
            }
            Scenario::Merger { case: c06::Case { universe, sources, kind, add_style: 2, out_conf }, into_writer }
        });
        let ins = vec((c07::dup_key(), prop_oneof![gen::val_small(), (100u32..700, any::<u64>()).prop_map(|(n, seed)| crate::common::Blob::Rand { n, seed })]), 0..=40).prop_map(InsertSrc::List);
        let sorter = (sm::sconf_small(), prop::sample::select(&MergeKind::ALL[..]), ins, 0u8..3, gen::wconf_light()).prop_map(|(mut conf, kind, src, exit, mut out_conf)| {
            conf.creator = CreatorKind::Instrumented;
            conf.parallel = false;
            if conf.chunk_codec == Some(crate::common::Codec::Zstd) {
                conf.chunk_level = Some(3);
            }
            if gen::heavy(&out_conf) {
                out_conf.level = 3;
            }
            Scenario::Sorter { conf, kind, src, exit, out_conf }
        });
        let n = tier.pick(200, 2500);
        vec![
            stage("writer", (writer, errs.clone()).prop_map(|(scenario, errs)| Case { scenario, errs }), n).shrink(40),
            stage("reader", (reader, errs.clone()).prop_map(|(scenario, errs)| Case { scenario, errs }), n).shrink(40),
            stage("merger", (merger, errs.clone()).prop_map(|(scenario, errs)| Case { scenario, errs }), n).shrink(40),
            stage("sorter", (sorter, errs).prop_map(|(scenario, errs)| Case { scenario, errs }), n).shrink(40),
        ]
    }

    fn rule(&self) -> String {
        "case = scenario (writer into an instrumented sink; reader with scans, seeks, range and prefix iterators over an \
         instrumented source; merger over instrumented sources, streamed or written into an instrumented sink, with a \
         failing merge function; sorter with instrumented chunk creator/storage/merge function and all three exits). A \
         fault-free run counts the N calls of each kind {write, flush, read, seek, create, merge}; then for EVERY kind and \
         EVERY k < N the scenario is re-run with the k-th call of that kind failing (error kinds cycled from a generated \
         list incl. write returning Ok(0); never Interrupted). Oracle per public call: no panic; Ok iff no component failed \
         during it; the failing call returns Io with the injected ErrorKind or wrapping the injected error (or Merge with the injected value). The \
         fault-free run must report no error. non-trivial = fault fired in a public call other than the first and not on \
         that call's first component call; distinct = hash(scenario, kind, k)"
            .into()
    }

    fn assumptions(&self) -> Vec<String> {
        vec![
            "after the failing call the scenario stops: further use of the object is unspecified".into(),
            "payload identity of the io::Error is recorded (counter marker_survived) but only the variant and ErrorKind are judged".into(),
        ]
    }

    fn exhaustive(&self, _tier: Tier) -> bool {
        false
    }

    fn health(&self, tier: Tier) -> Vec<(&'static str, u64)> {
        let m = tier.pick(1, 20);
        vec![("faults:Write", 500 * m), ("faults:Flush", 50 * m), ("faults:Read", 1000 * m), ("faults:Seek", 300 * m), ("faults:Create", 100 * m), ("faults:Merge", 200 * m)]
    }

    fn run(&self, case: &Case, obs: &mut Obs) -> Check {
        let prep = prepare(&case.scenario)?;
        let sname = name_of(&case.scenario);
        // fault-free counting run
        let ctl = ioinstr::ctl();
        let mut j = Judge::new(ctl.clone(), None, sname);
        execute(&case.scenario, &prep, &mut j);
        if let Some(v) = j.verdict {
            return Err(v);
        }
        let counts = ctl.borrow().counts;
        let public_calls = j.call_no;
        let sh = hash_of(&case.scenario);
        let mut runs = 0u64;
        let mut not_fired = 0u64;
        let mut marker = 0u64;
        for kind in Kind::ALL {
            let n = counts[kind.idx()];
            for k in 0..n {
                let err = if kind == Kind::Merge { ErrKind::Other } else { case.errs[(k as usize + kind.idx()) % case.errs.len()] };
                // Ok(0) is only meaningful for writes
                let err = if err == ErrKind::ReturnsZero && kind != Kind::Write { ErrKind::WriteZero } else { err };
                let plan = FaultPlan { kind, k, err };
                let ctl = ioinstr::ctl();
                ctl.borrow_mut().fault = Some(plan);
                let mut j = Judge::new(ctl.clone(), Some(plan), sname);
                execute(&case.scenario, &prep, &mut j);
                runs += 1;
                if let Some(v) = j.verdict {
                    return Err(v);
                }
                if !ctl.borrow().fired {
                    not_fired += 1;
                    continue;
                }
                if j.fired_in_call.is_none() {
                    return Err(Fail::new(
                        format!("c12:swallowed:{sname}:{:?}", kind),
                        format!("{sname} scenario, {:?} call #{k} failing with {:?}: the scenario completed without any public call reporting the failure", kind, err),
                    ));
                }
                if j.marker_survived {
                    marker += 1;
                }
                if j.mid_call && j.fired_in_call.unwrap_or(0) > 0 {
                    obs.sub_nontrivial.push(hash_of(&(sh, kind, k)));
                }
            }
            obs.add(&format!("faults:{:?}", kind), n);
        }
        obs.add("fault_runs", runs);
        obs.add("fault_not_reached", not_fired);
        obs.add("marker_survived", marker);
        obs.add("public_calls_fault_free", public_calls as u64);
        obs.class(format!("scenario:{sname}"));
        obs.nontrivial = !obs.sub_nontrivial.is_empty();
        obs.sample = Some(json!({"scenario": sname, "public_calls": public_calls, "component_calls": {"write": counts[0], "flush": counts[1], "read": counts[2], "seek": counts[3], "create": counts[4], "merge": counts[5]},
            "fault_runs": runs, "error_kinds": format!("{:?}", case.errs)}));
        Ok(())
    }
}
