//! C17 — no undefined behaviour in buffer management for any entry sizes.
//!
//! quick: every scenario runs under the checking allocator (guard bands, layout equality at dealloc, double
//! free, minimal-alignment placement, leak detection over repeated executions) in a build with overflow
//! checks and debug assertions, together with the content oracle of C07 (silent corruption inside the buffer
//! shows as wrong output). The thorough tier adds AddressSanitizer fuzzing and Miri (driven by ./check).

use proptest::collection::vec;
use proptest::prelude::*;
use serde::{Deserialize, Serialize};
use serde_json::json;

use crate::alloccheck;
use crate::common::{write_file, Check, Fail, FileSpec};
use crate::gen::{self, Tier};
use crate::ioinstr::{self, Creator};
use crate::model::Probe;
use crate::props::c07::{drain, feed, Exit};
use crate::rd::{self, COp};
use crate::runner::{stage, Obs, Prop, Stage};
use crate::sm::{self, output_ok, record, CreatorKind, MergeKind, SConf, Threshold, MF};
use crate::fail;

pub struct C17;

#[derive(Clone, Debug, Hash, PartialEq, Eq, Serialize, Deserialize)]
pub enum SizeSpec {
    /// key+value exactly fill the remaining space of the buffer
    ExactFit,
    /// leave 1..=15 bytes
    Leave(u8),
    /// one byte too many for the remaining space
    OneTooMany,
    /// needs `j` doublings of the buffer
    Doublings(u8),
    /// larger than the whole budget
    OverBudget,
    /// (quarters, odd): `quarters`/4 of the CURRENT buffer size plus `odd` bytes — megabytes once the buffer has grown;
    /// only used by the large-buffer stage (growth policies may change with the size of the live buffer)
    Big(u8, u8),
    /// plain sizes
    Plain(u16, u16),
    EmptyKey(u16),
    EmptyVal(u16),
    BothEmpty,
}

#[derive(Clone, Debug, Hash, Serialize, Deserialize)]
pub enum Case {
    Sorter { conf: SConf, kind: MergeKind, sizes: Vec<SizeSpec>, exit: u8 },
    Reader { spec: FileSpec, probes: Vec<Probe>, ops: Vec<crate::model::Op> },
}

/// Harness-side simulation of the buffer arithmetic, used only to aim inputs at the interesting sizes.
struct Sim {
    buf: usize,
    used: usize,
    bounds: usize,
    t: usize,
    realloc: bool,
    reallocs: u64,
    exact_fits: u64,
}

impl Sim {
    fn remaining(&self) -> usize {
        self.buf.saturating_sub(self.used + 24 * self.bounds)
    }
    fn fits(&self, kv: usize) -> bool {
        self.remaining() >= 24 + kv && self.buf / 24 > self.bounds
    }
    fn insert(&mut self, kv: usize) {
        if !(self.fits(kv) || (self.buf < self.t && self.realloc)) {
            self.used = 0;
            self.bounds = 0;
        }
        while !self.fits(kv) {
            self.buf *= 2;
            self.reallocs += 1;
        }
        if self.remaining() == 24 + kv {
            self.exact_fits += 1;
        }
        self.used += kv;
        self.bounds += 1;
    }
}

pub fn plan(conf: &SConf, sizes: &[SizeSpec]) -> (Vec<(usize, usize)>, u64, u64, bool) {
    plan_capped(conf, sizes, 600_000)
}

/// `cap` bounds a single entry (Miri cases use a small one: compressing megabytes under an interpreter takes minutes)
pub fn plan_capped(conf: &SConf, sizes: &[SizeSpec], cap: usize) -> (Vec<(usize, usize)>, u64, u64, bool) {
    let t = conf.effective_budget();
    let init = conf.init_cap.unwrap_or(if conf.allow_realloc { 131_072 } else { t }).max(16);
    let mut sim = Sim { buf: init.div_ceil(16) * 16, used: 0, bounds: 0, t, realloc: conf.allow_realloc, reallocs: 0, exact_fits: 0 };
    let mut out = Vec::new();
    let mut over = false;
    for s in sizes {
        let rem = sim.remaining();
        let kv: usize = match s {
            SizeSpec::ExactFit => rem.saturating_sub(24),
            SizeSpec::Leave(d) => rem.saturating_sub(24 + *d as usize),
            SizeSpec::OneTooMany => rem.saturating_sub(23),
            SizeSpec::Doublings(j) => (sim.buf << (*j as usize).clamp(1, 6).saturating_sub(1)).saturating_sub(sim.used + 24 * (sim.bounds + 1)) + 1,
            SizeSpec::OverBudget => {
                over = true;
                t + t / 2 + 7
            }
            SizeSpec::Big(q, odd) => {
                if sim.buf > (32 << 20) {
                    1000 + *odd as usize
                } else {
                    (sim.buf / 4 * (*q as usize).clamp(1, 10) + *odd as usize).min(48 << 20)
                }
            }
            SizeSpec::Plain(k, v) => *k as usize + *v as usize,
            SizeSpec::EmptyKey(v) => *v as usize,
            SizeSpec::EmptyVal(k) => *k as usize,
            SizeSpec::BothEmpty => 0,
        };
        // Miri cases (small cap) never get megabytes; elsewhere `Big` entries are bounded by their own 48 MiB limit
        let kv = if matches!(s, SizeSpec::Big(..)) && cap >= 600_000 { kv } else { kv.min(cap) };
        let (k, v) = match s {
            SizeSpec::EmptyKey(_) | SizeSpec::BothEmpty => (0, kv),
            SizeSpec::EmptyVal(_) => (kv, 0),
            SizeSpec::Plain(k, _) => ((*k as usize).min(kv), kv - (*k as usize).min(kv)),
            _ => {
                let k = (kv / 3).min(40);
                (k, kv - k)
            }
        };
        sim.insert(k + v);
        out.push((k, v));
    }
    (out, sim.reallocs, sim.exact_fits, over)
}

fn size_spec() -> BoxedStrategy<SizeSpec> {
    prop_oneof![
        3 => Just(SizeSpec::ExactFit),
        3 => (1u8..=15).prop_map(SizeSpec::Leave),
        2 => Just(SizeSpec::OneTooMany),
        2 => (1u8..=5).prop_map(SizeSpec::Doublings),
        1 => Just(SizeSpec::OverBudget),
        8 => (0u16..40, 0u16..200).prop_map(|(k, v)| SizeSpec::Plain(k, v)),
        1 => (0u16..100).prop_map(SizeSpec::EmptyKey),
        1 => (0u16..100).prop_map(SizeSpec::EmptyVal),
        1 => Just(SizeSpec::BothEmpty),
    ]
    .boxed()
}

fn sorter_conf() -> BoxedStrategy<SConf> {
    (
        prop_oneof![2 => 256usize..1024, 2 => 1024usize..8192, 1 => 8192usize..40000],
        // capacities that are not multiples of 16 included
        prop_oneof![1 => Just(16usize), 3 => 16usize..600, 2 => 600usize..8192],
        any::<bool>(),
        prop::sample::select(vec![1usize, 2, 3, 25]),
        any::<bool>(),
        prop_oneof![4 => Just(false), 1 => Just(true)],
    )
        .prop_map(|(t, cap, allow_realloc, max_nb_chunks, stable, parallel)| SConf {
            threshold: Threshold::Exact(t),
            init_cap: Some(cap.min(t)),
            allow_realloc,
            max_nb_chunks,
            stable,
            parallel,
            chunk_codec: None,
            chunk_level: None,
            block_size: Some(1024),
            interval: None,
            levels: None,
            creator: CreatorKind::Instrumented,
            order: 0,
        })
        .boxed()
}

/// runs `f` three times under the checking allocator; returns (live bytes after each run, peak)
fn thrice<R>(mut f: impl FnMut() -> Check<R>) -> Check<(R, [i64; 3], i64, u64)> {
    let mut live = [0i64; 3];
    let mut last = None;
    let a0 = alloccheck::snapshot().allocs;
    alloccheck::reset_peak();
    for l in live.iter_mut() {
        let r = alloccheck::tracked(&mut f);
        let v = alloccheck::take_violations();
        if let Some(first) = v.first() {
            let kind = first.split(|c: char| c == ':' || c == '(' || c.is_ascii_digit()).next().unwrap_or("").trim().replace(' ', "-");
            return Err(Fail::new(format!("c17:alloc:{kind}"), format!("checking allocator: {}", v.join("; "))));
        }
        last = Some(r?);
        *l = alloccheck::snapshot().live_bytes;
    }
    let s = alloccheck::snapshot();
    Ok((last.unwrap(), live, s.peak_bytes, s.allocs - a0))
}

/// Small cases for Miri (E4): tiny budgets, few inserts, pure-Rust codecs only.
pub fn miri_case() -> BoxedStrategy<Case> {
    use crate::common::{Codec, EntrySrc, WConf};
    let conf = (256usize..1024, 16usize..256, any::<bool>(), prop::sample::select(vec![1usize, 2, 3]), any::<bool>(), prop::sample::select(vec![None, Some(Codec::None), Some(Codec::Snappy), Some(Codec::Lz4)]))
        .prop_map(|(t, cap, allow_realloc, max_nb_chunks, stable, chunk_codec)| SConf {
            threshold: Threshold::Exact(t),
            init_cap: Some(cap.min(t)),
            allow_realloc,
            max_nb_chunks,
            stable,
            parallel: false,
            chunk_codec,
            chunk_level: None,
            block_size: Some(1024),
            interval: None,
            levels: Some(1),
            creator: CreatorKind::Instrumented,
            order: 0,
        });
    let sorter = (conf, prop::sample::select(&MergeKind::ALL[..]), vec(size_spec(), 1..24), 0u8..3).prop_map(|(conf, kind, sizes, exit)| Case::Sorter { conf, kind, sizes, exit });
    let file = (
        prop::sample::select(vec![Codec::None, Codec::Snappy, Codec::Lz4, Codec::SnappyPre05]),
        0u8..=2,
        prop::sample::select(vec![None, Some(1usize), Some(3)]),
        vec((gen::key_any(), gen::val_small()), 0..12),
    )
        .prop_map(|(codec, levels, interval, l)| FileSpec { conf: WConf { codec, level: 0, block_size: Some(1024), interval, levels }, src: EntrySrc::List(l) });
    let reader = (file, vec(gen::probe(), 0..4), gen::history(16)).prop_map(|(spec, probes, ops)| Case::Reader { spec, probes, ops });
    prop_oneof![3 => sorter, 1 => reader].boxed()
}

/// A clone must own what it hands out: position a cursor, clone it, drop (or move away) the original, and read the
/// clone's current entry. A borrowed slice into the original's freed block shows as poisoned bytes (checking
/// allocator), as a sanitizer report (ASan) or as UB (Miri).
pub fn clone_outlives_original(bytes: &[u8], entries: &crate::common::Entries, steps: usize) -> Check {
    if entries.is_empty() {
        return Ok(());
    }
    for drop_original in [true, false] {
        let mut a = rd::cursor(bytes)?;
        rd::apply(&mut a, &COp::First)?;
        for _ in 0..steps.min(entries.len() - 1) {
            rd::apply(&mut a, &COp::Next)?;
        }
        let want = rd::own(a.current());
        let b = a.clone();
        if drop_original {
            drop(a);
        } else {
            rd::apply(&mut a, &COp::Last)?;
            rd::apply(&mut a, &COp::First)?;
            a.reset();
        }
        // allocate and free something of similar size so that freed memory is likely to be reused
        let churn: Vec<Vec<u8>> = (0..4).map(|i| vec![0x5a ^ i as u8; 1024 + i * 512]).collect();
        drop(churn);
        let got = rd::own(b.current());
        let garbage = match &got {
            Some(e) => !entries.contains(e),
            None => false,
        };
        if got != want && garbage {
            fail!(
                "c17:clone-dangling",
                "a cloned cursor's current() changed after its original was {}: got {} want {}",
                if drop_original { "dropped" } else { "moved away" },
                rd::show(&got),
                rd::show(&want)
            );
        }
    }
    Ok(())
}

/// More than 1 GiB buffered in memory under a budget above 1 GiB (the buffer keeps growing past the default budget).
/// Runs in a process of its own (`vcheck C17 --giant-buffer`): a memory error there may kill the process.
pub fn giant_buffer_stage(out: &mut crate::runner::ExtraOut) {
    let avail_kib: u64 = std::fs::read_to_string("/proc/meminfo")
        .ok()
        .and_then(|s| s.lines().find(|l| l.starts_with("MemAvailable:")).and_then(|l| l.split_whitespace().nth(1).and_then(|v| v.parse().ok())))
        .unwrap_or(0);
    if avail_kib < 24 * 1024 * 1024 {
        out.counters.insert("giant_buffer_skipped_low_memory".into(), 1);
        return;
    }
    let exe = match std::env::current_exe() {
        Ok(e) => e,
        Err(_) => return,
    };
    match std::process::Command::new(exe).args(["C17", "--giant-buffer"]).output() {
        Ok(o) => {
            let so = String::from_utf8_lossy(&o.stdout).to_string();
            if o.status.success() && so.contains("GIANT-BUFFER-OK") {
                out.evaluations += 1;
                out.nontrivial += 1;
                out.counters.insert("giant_buffer_checked".into(), 1);
                out.samples.push(serde_json::json!({"kind": "giant-buffer", "budget": "3 GiB", "inserted": "2.4 GiB in 128 MiB values + small entries"}));
            } else {
                let se = String::from_utf8_lossy(&o.stderr);
                let why = se.lines().rev().find(|l| !l.trim().is_empty()).unwrap_or("").to_string();
                out.violations.push((
                    Fail::new("c17:giant-buffer", format!("a sorter buffering more than 1 GiB died or failed (status {:?}): {} {}", o.status.code(), so.lines().last().unwrap_or(""), why)),
                    serde_json::json!("GiantBuffer"),
                ));
            }
        }
        Err(e) => {
            eprintln!("INCONCLUSIVE: cannot start the giant-buffer process: {e}");
            out.inconclusive = true;
        }
    }
}

/// body of `vcheck C17 --giant-buffer`
pub fn giant_buffer_main() -> i32 {
    let r = crate::common::catch(|| -> Result<(), String> {
        let mut b = grenad::Sorter::builder(MF::plain(MergeKind::Last)).chunk_creator(grenad::CursorVec);
        b.dump_threshold(3usize << 30);
        b.allow_realloc(true);
        let mut s = b.build();
        let big = vec![0x77u8; 128 << 20];
        let mut keys: Vec<Vec<u8>> = Vec::new();
        for i in 0..19u32 {
            let k = format!("k{:03}", 50 - i).into_bytes();
            s.insert(&k, &big).map_err(|e| format!("insert failed: {e}"))?;
            keys.push(k.clone());
            let small = format!("s{:03}", i).into_bytes();
            s.insert(&small, [i as u8; 5]).map_err(|e| format!("insert failed: {e}"))?;
            keys.push(small);
        }
        drop(big);
        keys.sort();
        let mut it = s.into_stream_merger_iter().map_err(|e| format!("into_stream_merger_iter failed: {e}"))?;
        let mut got = Vec::new();
        while let Some((k, v)) = it.next().map_err(|e| format!("next failed: {e}"))? {
            if k.starts_with(b"k") && (v.len() != 128 << 20 || v.iter().step_by(4099).any(|b| *b != 0x77)) {
                return Err("a 128 MiB value came back altered".into());
            }
            got.push(k.to_vec());
        }
        if got != keys {
            return Err(format!("output keys differ: {} got, {} expected", got.len(), keys.len()));
        }
        Ok(())
    });
    match r {
        Ok(Ok(())) => {
            println!("GIANT-BUFFER-OK");
            0
        }
        Ok(Err(m)) => {
            println!("GIANT-BUFFER-FAIL {m}");
            1
        }
        Err(p) => {
            println!("GIANT-BUFFER-FAIL panic {p}");
            1
        }
    }
}

/// `n` cases for the Miri stage, generated natively and deterministically from the seed.
pub fn miri_cases(seed: u64, n: u32) -> Vec<Case> {
    use proptest::strategy::ValueTree;
    use proptest::test_runner::{Config, RngSeed, TestRunner};
    let mut runner = TestRunner::new(Config { rng_seed: RngSeed::Fixed(seed.wrapping_mul(7919).wrapping_add(0x6d69_7269)), failure_persistence: None, ..Config::default() });
    let s = miri_case();
    (0..n).map(|_| s.new_tree(&mut runner).expect("generation").current()).collect()
}

/// Engine E4 driver: runs the cases under `cargo +nightly miri run` on `procs` processes.
pub fn miri_stage(seed: u64, n: u32, procs: usize, out: &mut crate::runner::ExtraOut) {
    use std::process::Command;
    let work = std::path::PathBuf::from(crate::runner::verif_dir()).join("target/miriwork");
    let _ = std::fs::create_dir_all(&work);
    let cases = miri_cases(seed, n);
    let file = work.join(format!("cases-{seed}.json"));
    std::fs::write(&file, serde_json::to_string(&cases).unwrap()).unwrap();
    let run = |idx: usize, total: usize| {
        Command::new("cargo")
            .current_dir(format!("{}/harness", crate::runner::verif_dir()))
            .env("MIRIFLAGS", "-Zmiri-disable-isolation")
            .env("CARGO_NET_OFFLINE", "true")
            .args(["+nightly", "miri", "run", "--target-dir"])
            .arg(format!("{}/target/miri", crate::runner::verif_dir()))
            .args(["--bin", "vmiri", "--"])
            .arg(&file)
            .arg(idx.to_string())
            .arg(total.to_string())
            .output()
    };
    // the first process also builds; an index beyond the list runs no case
    match run(usize::MAX - 1, usize::MAX) {
        Ok(o) if String::from_utf8_lossy(&o.stdout).contains("MIRI-DONE") => {}
        Ok(o) => {
            eprintln!("INCONCLUSIVE: Miri build/run failed: {}", String::from_utf8_lossy(&o.stderr).lines().rev().take(12).collect::<Vec<_>>().join(" | "));
            out.inconclusive = true;
            return;
        }
        Err(e) => {
            eprintln!("INCONCLUSIVE: cannot start cargo miri: {e}");
            out.inconclusive = true;
            return;
        }
    }
    let results: Vec<_> = std::thread::scope(|s| {
        let hs: Vec<_> = (0..procs).map(|i| s.spawn(move || run(i, procs))).collect();
        hs.into_iter().map(|h| h.join().unwrap()).collect()
    });
    let mut done = 0u64;
    for r in results {
        let Ok(o) = r else {
            out.inconclusive = true;
            continue;
        };
        let so = String::from_utf8_lossy(&o.stdout).to_string();
        let se = String::from_utf8_lossy(&o.stderr).to_string();
        let last_case = so.lines().filter_map(|l| l.strip_prefix("MIRI-CASE ")).filter_map(|v| v.trim().parse::<usize>().ok()).last();
        if let Some(l) = so.lines().find(|l| l.starts_with("MIRI-DONE")) {
            done += l.trim_start_matches("MIRI-DONE cases=").parse::<u64>().unwrap_or(0);
            continue;
        }
        let case_json = last_case.and_then(|i| cases.get(i)).map(|c| serde_json::to_value(c).unwrap()).unwrap_or(serde_json::Value::Null);
        if let Some(l) = so.lines().find(|l| l.starts_with("MIRI-ORACLE-FAIL")) {
            out.violations.push((Fail::new("c17:miri:oracle", l.to_string()), case_json));
        } else if se.contains("Undefined Behavior") || se.contains("error: memory leaked") || se.contains("error: unsupported operation") && !se.contains("can't call foreign function") {
            let line = se.lines().find(|l| l.starts_with("error")).unwrap_or("error");
            // the location that follows the error line (earlier `-->` lines belong to compiler warnings)
            let at = se.lines().skip_while(|l| !l.starts_with("error")).find(|l| l.trim_start().starts_with("-->")).unwrap_or("");
            out.violations.push((
                Fail::new("c17:miri:ub", format!("Miri: {line} {at} (case #{:?}; re-run: cd /verif/harness && MIRIFLAGS=-Zmiri-disable-isolation cargo +nightly miri run --target-dir /verif/target/miri --bin vmiri -- {} 0 1)", last_case, file.display())),
                case_json,
            ));
        } else {
            eprintln!("INCONCLUSIVE: a Miri process ended without a verdict: {}", se.lines().rev().take(8).collect::<Vec<_>>().join(" | "));
            out.inconclusive = true;
        }
    }
    out.evaluations += done;
    out.nontrivial += done;
    out.counters.insert("miri_cases".into(), done);
    out.samples.push(serde_json::json!({"kind": "miri", "cases_executed_under_miri": done, "processes": procs, "first_case": cases.first()}));
}

/// Executes a case once without the checking allocator (Miri or a sanitizer is the oracle); content is still checked.
pub fn run_plain(case: &Case) -> Check {
    match case {
        Case::Sorter { conf, kind, sizes, exit } => {
            let (lens, _, _, _) = plan_capped(conf, sizes, 6000);
            let inserts: Vec<(Vec<u8>, Vec<u8>)> = lens
                .iter()
                .enumerate()
                .map(|(i, (k, v))| {
                    let mut key = vec![b'a' + (i % 7) as u8; *k];
                    if let Some(l) = key.last_mut() {
                        *l = (i % 5) as u8;
                    }
                    (key, vec![(i as u8) ^ 0x3c; *v])
                })
                .collect();
            let fed: Vec<(Vec<u8>, Vec<u8>)> = match kind {
                MergeKind::Concat => inserts.iter().map(|(k, v)| (k.clone(), record(v))).collect(),
                _ => inserts.clone(),
            };
            let distinct = sm::group(&fed).len();
            let exit = [Exit::Stream, Exit::Writer, Exit::Cursors][*exit as usize % 3];
            let s = feed(conf, MF::plain(*kind), Creator { ctl: ioinstr::ctl() }, &fed)?;
            let out = drain(s, exit, *kind, &crate::common::WConf::plain(), distinct + 1)?;
            if let Err(e) = output_ok(*kind, conf.stable, &inserts, &out.entries) {
                fail!("c17:content", "output corrupted ({}): {}", conf.label(), e);
            }
            Ok(())
        }
        Case::Reader { spec, probes, ops } => {
            let entries = spec.src.entries();
            let bytes = write_file(&spec.conf, &entries)?;
            let reader = rd::open(&bytes)?;
            let mut c = rd::guard("into_cursor", || reader.clone().into_cursor())?;
            let fwd = rd::scan_fwd(&mut c, entries.len() + 1)?;
            if fwd != entries {
                fail!("c17:content", "forward scan differs from the content");
            }
            for p in probes {
                let q = p.bytes(&entries);
                let mut c2 = c.clone();
                rd::apply(&mut c2, &COp::Le(q.clone()))?;
                rd::apply(&mut c, &COp::Ge(q))?;
            }
            crate::props::c03::run_history(&bytes, &entries, ops, None)?;
            clone_outlives_original(&bytes, &entries, ops.len() % 7)?;
            Ok(())
        }
    }
}

impl Prop for C17 {
    type Case = Case;

    fn id(&self) -> &'static str {
        "C17"
    }

    fn stages(&self, tier: Tier) -> Vec<Stage<Case>> {
        let sorter = (sorter_conf(), prop::sample::select(&MergeKind::ALL[..]), vec(size_spec(), 1..60), 0u8..3)
            .prop_map(|(conf, kind, sizes, exit)| Case::Sorter { conf, kind, sizes, exit });
        let reader = (gen::file_spec_light(tier), vec(gen::probe(), 0..12), gen::history(40)).prop_map(|(spec, probes, ops)| Case::Reader { spec, probes, ops });
        // a live buffer of megabytes (1..128 MiB) that keeps growing: entries sized relative to the current buffer, odd
        // byte counts, a budget that is never reached
        let big_sizes = vec(prop_oneof![4 => (1u8..=10, any::<u8>()).prop_map(|(q, o)| SizeSpec::Big(q, o)), 1 => (1u16..60, 0u16..5000).prop_map(|(k, v)| SizeSpec::Plain(k, v)), 1 => Just(SizeSpec::ExactFit), 1 => (1u8..=15).prop_map(SizeSpec::Leave)], 3..9);
        let large = (prop_oneof![(1usize << 20)..(6usize << 20), Just(1usize << 20), Just(4usize << 20), Just(8usize << 20)], any::<bool>(), prop::sample::select(&MergeKind::ALL[..]), big_sizes, 0u8..3).prop_map(|(cap, stable, kind, sizes, exit)| Case::Sorter {
            conf: SConf {
                threshold: Threshold::Exact(1 << 30),
                init_cap: Some(cap),
                allow_realloc: true,
                max_nb_chunks: 25,
                stable,
                parallel: false,
                chunk_codec: None,
                chunk_level: None,
                block_size: None,
                interval: None,
                levels: None,
                creator: CreatorKind::Instrumented,
                order: 0,
            },
            kind,
            sizes,
            exit,
        });
        vec![
            stage("sorter-sizes", sorter, tier.pick(2400, 80_000)).shrink(300),
            stage("reader-paths", reader, tier.pick(600, 20_000)).shrink(300),
            stage("large-buffer", large, tier.pick(64, 1500)).shrink(12),
        ]
    }

    fn rule(&self) -> String {
        "Sorter case = budget (256 B..40 kB) x initial capacity (16 B.., not only multiples of 16) x realloc on/off x insert-size \
         sequence aimed by a harness-side simulation of the buffer arithmetic at: exact fit of the remaining space, 1..15 \
         bytes left, one byte too many, 1..5 doublings, larger than the budget, empty keys/values; Reader case = file x seeks x \
         cursor history (borrowed key/value slices). Oracle: checking global allocator (32-byte canary bands, layout recorded \
         at alloc and compared at dealloc, double free, placement at an address that is A- but not 2A-aligned so that \
         over-assumed alignment fails bytemuck's checked casts, zero-size request) + leak = live bytes grow on each of three \
         identical executions + overflow checks + debug assertions + C07's content oracle. non-trivial = case with >=1 \
         reallocation, exact fit or over-budget entry (sorter) / multi-block file (reader); distinct = hash(case)"
            .into()
    }

    fn assumptions(&self) -> Vec<String> {
        vec![
            "dynamic detection on executed paths only; absence of UB is not established".into(),
            "the thorough tier adds AddressSanitizer (cargo-fuzz) and Miri runs; Miri cannot execute the zstd C code".into(),
        ]
    }

    fn health(&self, tier: Tier) -> Vec<(&'static str, u64)> {
        vec![("ub:realloc", tier.pick(800, 24_000)), ("ub:exact-fit", tier.pick(300, 9000)), ("ub:over-budget", tier.pick(300, 9000))]
    }

    fn fuzz_targets(&self) -> Vec<(&'static str, u64)> {
        vec![("fuzz_sorter", 3_000), ("fuzz_cursor", 25_000)]
    }

    fn extra(&self, tier: Tier, seed: u64, ctx: &crate::runner::ExtraCtx) -> crate::runner::ExtraOut {
        let mut out = crate::runner::ExtraOut::default();
        let n: u32 = std::env::var("VERIF_MIRI_CASES").ok().and_then(|s| s.parse().ok()).unwrap_or(tier.pick(0, 480));
        if n > 0 {
            miri_stage(seed, n, ctx.threads, &mut out);
        }
        if tier == Tier::Thorough && out.violations.is_empty() && std::env::var("VERIF_NO_GIANT").is_err() {
            giant_buffer_stage(&mut out);
        }
        out
    }

    fn run(&self, case: &Case, obs: &mut Obs) -> Check {
        if !alloccheck::installed() {
            fail!("c17:harness", "the checking allocator is not installed in this binary");
        }
        match case {
            Case::Sorter { conf, kind, sizes, exit } => {
                let (lens, reallocs, exact, over) = plan(conf, sizes);
                let inserts: Vec<(Vec<u8>, Vec<u8>)> = lens
                    .iter()
                    .enumerate()
                    .map(|(i, (k, v))| {
                        let mut key = vec![b'a' + (i % 7) as u8; *k];
                        if let Some(l) = key.last_mut() {
                            *l = (i % 5) as u8;
                        }
                        let mut val = vec![(i as u8) ^ 0x3c; *v];
                        if let Some(f) = val.first_mut() {
                            *f = i as u8;
                        }
                        (key, val)
                    })
                    .collect();
                // for record concatenation the value is framed (4-byte length prefix): carve the frame out of the
                // planned value size where there is room, so that the planned sizes stay exact
                let (fed, model_in): (Vec<(Vec<u8>, Vec<u8>)>, Vec<(Vec<u8>, Vec<u8>)>) = if *kind == MergeKind::Concat {
                    let raw: Vec<(Vec<u8>, Vec<u8>)> = inserts.iter().map(|(k, v)| (k.clone(), v[..v.len().saturating_sub(4)].to_vec())).collect();
                    (raw.iter().map(|(k, v)| (k.clone(), record(v))).collect(), raw)
                } else {
                    (inserts.clone(), inserts.clone())
                };
                let distinct = sm::group(&fed).len();
                let exit = [Exit::Stream, Exit::Writer, Exit::Cursors][*exit as usize % 3];
                let out_conf = crate::common::WConf::plain();
                let (ok, live, peak, allocs) = thrice(|| {
                    let s = feed(conf, MF::plain(*kind), Creator { ctl: ioinstr::ctl() }, &fed)?;
                    let out = drain(s, exit, *kind, &out_conf, distinct + 1)?;
                    let r = output_ok(*kind, conf.stable, &model_in, &out.entries);
                    drop(out);
                    Ok(r)
                })?;
                if let Err(e) = ok {
                    fail!("c17:content", "output corrupted ({}): {}", conf.label(), e);
                }
                if live[1] > live[0] && live[2] > live[1] {
                    fail!("c17:leak", "live heap bytes grow on every identical execution: {:?} ({})", live, conf.label());
                }
                if reallocs > 0 {
                    obs.class("ub:realloc");
                }
                if exact > 0 {
                    obs.class("ub:exact-fit");
                }
                if over {
                    obs.class("ub:over-budget");
                }
                obs.add("tracked_allocations", allocs);
                obs.add("inserts", fed.len() as u64 * 3);
                obs.nontrivial = reallocs > 0 || exact > 0 || over;
                obs.sample = Some(json!({"kind": "sorter", "conf": conf.label(), "sizes(key,value)": lens.iter().take(10).collect::<Vec<_>>(), "inserts": lens.len(),
                    "simulated_reallocs": reallocs, "simulated_exact_fits": exact, "peak_tracked_bytes": peak}));
                Ok(())
            }
            Case::Reader { spec, probes, ops } => {
                let entries = spec.src.entries();
                let (_, live, _, allocs) = thrice(|| {
                    let bytes = write_file(&spec.conf, &entries)?;
                    let reader = rd::open(&bytes)?;
                    let mut c = rd::guard("into_cursor", || reader.clone().into_cursor())?;
                    let fwd = rd::scan_fwd(&mut c, entries.len() + 1)?;
                    if fwd != entries {
                        fail!("c17:content", "forward scan under the checking allocator differs from the content");
                    }
                    for p in probes {
                        let q = p.bytes(&entries);
                        let mut c2 = c.clone();
                        rd::apply(&mut c2, &COp::Le(q.clone()))?;
                        rd::apply(&mut c2, &COp::Prev)?;
                        rd::apply(&mut c, &COp::Ge(q.clone()))?;
                        let mut it = rd::guard("into_prefix_iter", || reader.clone().into_rev_prefix_iter(q))?;
                        let _ = rd::guard("next", || it.next().map(rd::own))?;
                    }
                    crate::props::c03::run_history(&bytes, &entries, ops, None)?;
                    clone_outlives_original(&bytes, &entries, ops.len() % 7)?;
                    Ok(())
                })?;
                if live[1] > live[0] && live[2] > live[1] {
                    fail!("c17:leak", "live heap bytes grow on every identical execution: {:?}", live);
                }
                obs.add("tracked_allocations", allocs);
                obs.nontrivial = entries.len() > 20;
                obs.class("ub:reader");
                obs.sample = Some(json!({"kind": "reader", "conf": spec.conf.label(), "entries": entries.len(), "probes": probes.len(), "ops": ops.len()}));
                Ok(())
            }
        }
    }
}
