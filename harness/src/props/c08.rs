//! C08 — sorter spills: unspilled data and live chunks stay within configured bounds.

use proptest::prelude::*;
use serde::{Deserialize, Serialize};
use serde_json::json;

use crate::common::{catch, Check};
use crate::gen::Tier;
use crate::ioinstr::{self, Creator};
use crate::props::c07::serr;
use crate::runner::{stage, Obs, Prop, Stage};
use crate::sm::{CreatorKind, MergeKind, SConf, Threshold, MF};
use crate::{ensure, fail};

pub struct C08;

#[derive(Clone, Debug, Hash, Serialize, Deserialize)]
pub struct Case {
    pub threshold: Threshold,
    pub init_cap: Option<usize>,
    pub allow_realloc: bool,
    pub max_nb_chunks: usize,
    /// number of inserts (hooked) or total volume in MiB (public)
    pub amount: u32,
    /// entry sizes as fractions (x/1024) of budget/4, cycled
    pub sizes: Vec<u16>,
    pub key_mod: u16,
    /// the k-th `create()` call fails once (a transient failure of the chunk creator); the harness ignores that
    /// error and keeps inserting, as a caller treating it as transient would. This is the scenario that makes the
    /// bound `max_nb_chunks + 2` (rather than +1) tight: a failed merge leaves `max` chunks, the next spill adds one,
    /// and the retried merge creates one more.
    #[serde(default)]
    pub create_fault: Option<u16>,
    /// order of the builder's setter calls
    #[serde(default)]
    pub order: u8,
}

impl Prop for C08 {
    type Case = Case;

    fn id(&self) -> &'static str {
        "C08"
    }

    fn stages(&self, tier: Tier) -> Vec<Stage<Case>> {
        let sizes = proptest::collection::vec(prop_oneof![3 => 0u16..64, 3 => 0u16..1024, 1 => Just(1024u16), 1 => Just(0u16)], 1..24);
        let hooked = (
            256usize..16384,
            prop_oneof![2 => Just(None), 1 => (0u16..=1024).prop_map(Some)],
            any::<bool>(),
            prop::sample::select(vec![1usize, 2, 3, 5, 25]),
            200u32..tier.pick(4000, 20000),
            sizes.clone(),
            1u16..500,
        )
            .prop_map(|(t, capf, allow_realloc, max_nb_chunks, amount, sizes, key_mod)| Case {
                threshold: Threshold::Exact(t),
                // initial capacity as a fraction of the budget (never above it); None = the budget itself when
                // reallocation is off (what the public builder does), small when it is on
                init_cap: Some(match capf {
                    Some(f) => (t * f as usize / 1024).max(16),
                    None => {
                        if allow_realloc {
                            (t / 8).max(16)
                        } else {
                            t
                        }
                    }
                }),
                allow_realloc,
                max_nb_chunks,
                amount,
                sizes,
                key_mod,
                create_fault: None,
                order: (amount % 12) as u8,
            });
        let faulty = (hooked.clone(), 0u16..24).prop_map(|(mut c, k)| {
            c.create_fault = Some(k);
            c
        });
        let public = (
            prop::sample::select(vec![0usize, 1024, 10 * 1024 * 1024, 12 * 1024 * 1024]),
            any::<bool>(),
            prop::sample::select(vec![1usize, 2, 5]),
            40u32..tier.pick(80, 300),
            sizes,
            1u16..500,
        )
            .prop_map(|(t, allow_realloc, max_nb_chunks, amount, sizes, key_mod)| Case {
                threshold: Threshold::Public(t),
                init_cap: None,
                allow_realloc,
                max_nb_chunks,
                amount,
                sizes,
                key_mod,
                create_fault: None,
                order: (amount % 12) as u8,
            });
        // NOT registered: the fault-and-continue scenario is outside C08's quantifier (see DESIGN 12, false alarms);
        // kept for experiments with VERIF_C08_FAULTS=1
        let mut stages = Vec::new();
        if std::env::var("VERIF_C08_FAULTS").is_ok() {
            stages.push(stage("transient-create-failure", faulty, tier.pick(1000, 20_000)).shrink(200));
        }
        stages.extend([stage("hooked", hooked, tier.pick(2000, 40_000)).shrink(200), stage("public-threshold", public, tier.pick(2, 8)).shrink(0)]);
        stages
    }

    fn rule(&self) -> String {
        "case = long insert stream with every entry <= budget/4 x (budget T: hooked 256 B..16 KiB, or the public dump_threshold \
         in {0, 1 KiB, 10 MiB, 12 MiB} -> effective max(T, 10 MiB) with 40..80 MiB (thorough: up to 300 MiB) inserted) x realloc on/off x max_nb_chunks. \
         Oracle after EVERY insert, with an instrumented chunk creator: key+value bytes inserted since the last insert during \
         which create() was called (that insert's entry opening the new epoch) <= 2T (realloc) or <= T (no realloc); live \
         chunks <= max_nb_chunks + 2 at every create, after every insert and after the final flush; spilled data implies \
         create() calls (chunks come only from the creator). non-trivial = at least 4 create() calls and at least one chunk merge (more create() calls than final chunks); distinct = hash(case)"
            .into()
    }

    fn assumptions(&self) -> Vec<String> {
        vec![
            "entry size <= budget/4, initial capacity <= budget, budget >= 256 (DESIGN 6.5)".into(),
            "'however much is inserted' is sampled up to 80 MiB / 20 000 inserts".into(),
        ]
    }

    fn health(&self, tier: Tier) -> Vec<(&'static str, u64)> {
        vec![("spill:nontrivial", tier.pick(300, 9000)), ("spill:public", tier.pick(2, 8))]
    }

    fn run(&self, case: &Case, obs: &mut Obs) -> Check {
        let conf = SConf {
            threshold: case.threshold,
            init_cap: case.init_cap,
            allow_realloc: case.allow_realloc,
            max_nb_chunks: case.max_nb_chunks,
            stable: true,
            parallel: false,
            chunk_codec: None,
            chunk_level: None,
            block_size: None,
            interval: None,
            levels: None,
            creator: CreatorKind::Instrumented,
            order: case.order,
        };
        let t = conf.effective_budget();
        let bound = if case.allow_realloc { 2 * t } else { t };
        let ctl = ioinstr::ctl();
        if let Some(k) = case.create_fault {
            ctl.borrow_mut().fault = Some(ioinstr::FaultPlan { kind: ioinstr::Kind::Create, k: k as u64, err: ioinstr::ErrKind::Other });
        }
        // `chunk_creator` is one more setter that commutes with the others: for order >= 6 it is called last
        let b = if case.order >= 6 {
            let mut b0 = grenad::Sorter::builder(MF::plain(MergeKind::Last));
            conf.apply(&mut b0);
            b0.chunk_creator(Creator { ctl: ctl.clone() })
        } else {
            let mut b = grenad::Sorter::builder(MF::plain(MergeKind::Last)).chunk_creator(Creator { ctl: ctl.clone() });
            conf.apply(&mut b);
            b
        };
        let mut s = b.build();
        let public = matches!(case.threshold, Threshold::Public(_));
        let max_entry = t / 4;
        let total_target: u64 = if public { case.amount as u64 * 1024 * 1024 } else { u64::MAX };
        let n_inserts: u64 = if public { u64::MAX } else { case.amount as u64 };
        let mut epoch: u64 = 0;
        let mut total: u64 = 0;
        let mut i: u64 = 0;
        let mut max_epoch = 0u64;
        let mut value = vec![0xabu8; max_entry];
        while i < n_inserts && total < total_target {
            let f = case.sizes[(i % case.sizes.len() as u64) as usize] as usize;
            // public: entries between 64 B and T/4 (2.5 MiB); hooked: 2 B .. T/4
            let size = (max_entry * f / 1024).max(if public { 64 } else { 2 }).min(max_entry);
            let klen = 2.min(size);
            let key = (((i * 7919) % case.key_mod as u64) as u16).to_be_bytes();
            let vlen = size - klen;
            value[0] = i as u8;
            let before = ctl.borrow().created;
            let fired_before = ctl.borrow().fired;
            match catch(|| s.insert(&key[..klen], &value[..vlen])) {
                Ok(Err(grenad::Error::Io(_))) if ctl.borrow().fired && !fired_before => {
                    // the injected transient failure: the entry was not stored; carry on
                    obs.class("spill:create-fault-hit");
                    i += 1;
                    continue;
                }
                r => serr("Sorter::insert", r)?,
            }
            let (after, live, max_live) = {
                let c = ctl.borrow();
                (c.created, c.live_chunks, c.max_live_chunks)
            };
            if after > before {
                epoch = size as u64;
            } else {
                epoch += size as u64;
            }
            max_epoch = max_epoch.max(epoch);
            if epoch > bound as u64 {
                fail!(
                    "c08:volume",
                    "{} bytes inserted since the last spill (insert #{i}), budget {} ({}): bound {} exceeded; {}",
                    epoch, t, if case.allow_realloc { "realloc" } else { "no realloc" }, bound, conf.label()
                );
            }
            if live > case.max_nb_chunks as i64 + 2 || max_live > case.max_nb_chunks as i64 + 2 {
                fail!("c08:chunks", "{} chunks alive (peak {}) with max_nb_chunks={} after insert #{i}", live, max_live, case.max_nb_chunks);
            }
            total += size as u64;
            i += 1;
        }
        let spills_before_flush = ctl.borrow().created;
        // final flush
        let cursors = serr("into_reader_cursors", catch(|| s.into_reader_cursors()))?;
        let (created, live, max_live, written) = {
            let c = ctl.borrow();
            (c.created, c.live_chunks, c.max_live_chunks, c.chunk_bytes_written)
        };
        ensure!(
            live <= case.max_nb_chunks as i64 + 2 && max_live <= case.max_nb_chunks as i64 + 2,
            "c08:chunks",
            "{} chunks alive (peak {}) with max_nb_chunks={} after the final flush",
            live, max_live, case.max_nb_chunks
        );
        ensure!(cursors.len() as i64 == live, "c08:chunks-accounting", "{} cursors returned but {} chunks alive", cursors.len(), live);
        ensure!(created >= 1 && written > 0 || total == 0, "c08:creator-bypassed", "data was spilled ({} bytes inserted) without the chunk creator being called", total);
        if total > 2 * bound as u64 {
            ensure!(spills_before_flush >= 1, "c08:no-spill", "{} bytes inserted with budget {} and the creator was never called before the final flush", total, t);
        }
        drop(cursors);
        ensure!(ctl.borrow().live_chunks == 0, "c08:chunk-leak", "chunks still alive after the cursors were dropped");

        // every spill adds a chunk and only merges remove some: more create() calls than chunks at the end
        // means at least one chunk merge happened
        let final_chunks = live;
        let nt = created >= 4 && created as i64 > final_chunks;
        if nt {
            obs.class("spill:nontrivial");
        }
        if public {
            obs.class("spill:public");
        }
        obs.class(if case.allow_realloc { "spill:realloc" } else { "spill:no-realloc" });
        obs.add("inserts", i);
        obs.add("bytes_inserted", total);
        obs.add("create_calls", created);
        obs.nontrivial = nt;
        obs.sample = Some(json!({"budget": t, "allow_realloc": case.allow_realloc, "max_nb_chunks": case.max_nb_chunks, "inserts": i, "bytes": total,
            "create_calls": created, "peak_live_chunks": max_live, "largest_unspilled_volume": max_epoch, "bound": bound}));
        Ok(())
    }
}
