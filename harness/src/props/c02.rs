//! C02 — seeks return the exact ceiling, floor or match of the probe key.

use proptest::collection::vec;
use proptest::prelude::*;
use serde::{Deserialize, Serialize};
use serde_json::json;

use crate::common::{brief, hash_of, pick, write_file, Check, Entries, FileSpec};
use crate::gen::{self, Tier};
use crate::model::{complete_alphabet, Model, Probe};
use crate::props::c01::layout_classes;
use crate::rd::{self, COp};
use crate::runner::{stage, Obs, Prop, Stage};
use crate::fail;

pub struct C02;

#[derive(Clone, Debug, Hash, Serialize, Deserialize)]
pub struct Case {
    pub spec: FileSpec,
    /// selects equivalence classes when the file is too large for the complete alphabet
    pub picks: Vec<u16>,
    pub probes: Vec<Probe>,
    /// an arbitrary history (failed seeks, runs of next/prev to the ends, ...) executed, unjudged, on a cursor that is
    /// then `reset()`: a reset cursor must answer like a fresh one whatever happened before
    #[serde(default)]
    pub pre: Vec<crate::model::Op>,
}

pub const COMPLETE_UP_TO: usize = 150;

/// The probe set of a case: complete alphabet for small files, sampled classes otherwise, plus the
/// generated probes. Returns (probes, complete?).
pub fn probe_set(entries: &Entries, picks: &[u16], probes: &[Probe]) -> (Vec<Vec<u8>>, bool) {
    let alpha = complete_alphabet(entries);
    let complete = entries.len() <= COMPLETE_UP_TO;
    let mut qs: Vec<Vec<u8>> = if complete {
        alpha
    } else {
        picks.iter().map(|i| alpha[pick(*i, alpha.len())].clone()).collect()
    };
    qs.extend(probes.iter().map(|p| p.bytes(entries)));
    (qs, complete)
}

/// Checks GE/LE/EQ of `q` on `c` (which must be fresh or reset) against the model.
pub fn check_seeks<R: std::io::Read + std::io::Seek>(
    mk: &mut dyn FnMut() -> Check<grenad::ReaderCursor<R>>,
    long_lived: &mut grenad::ReaderCursor<R>,
    m: &Model,
    entries: &Entries,
    q: &[u8],
    sigp: &str,
) -> Check {
    for op in [COp::Ge(q.to_vec()), COp::Le(q.to_vec()), COp::Eq(q.to_vec())] {
        let want = rd::model_abs(m, &op).map(|i| entries[i].clone());
        let mut fresh = mk()?;
        let got = rd::apply(&mut fresh, &op)?;
        if got != want {
            fail!(
                format!("{sigp}:fresh:{}", &op.show()[..2]),
                "fresh cursor, {} on {} entries returned {} but the model says {}",
                op.show(),
                entries.len(),
                rd::show(&got),
                rd::show(&want)
            );
        }
        long_lived.reset();
        let got = rd::apply(long_lived, &op)?;
        if got != want {
            fail!(
                format!("{sigp}:reset:{}", &op.show()[..2]),
                "reset cursor, {} on {} entries returned {} but the model says {}",
                op.show(),
                entries.len(),
                rd::show(&got),
                rd::show(&want)
            );
        }
    }
    Ok(())
}

impl Prop for C02 {
    type Case = Case;

    fn id(&self) -> &'static str {
        "C02"
    }

    fn stages(&self, tier: Tier) -> Vec<Stage<Case>> {
        let s = (gen::file_spec(tier), vec(any::<u16>(), 300), vec(gen::probe(), 50), gen::history(80))
            .prop_map(|(spec, picks, probes, pre)| Case { spec, picks, probes, pre });
        vec![stage("files", s, tier.pick(1500, 15_000)).shrink(800)]
    }

    fn rule(&self) -> String {
        format!(
            "case = file x probe set; for files with <= {COMPLETE_UP_TO} entries the probe set is one probe per key-order \
             equivalence class (every stored key, every gap, before-first, after-last) plus 50 generated probes, otherwise \
             300 sampled classes + 50 generated probes; each probe is sought GE/LE/EQ on a fresh cursor and on a reset \
             long-lived cursor. non-trivial sub-case = (file with >=2 data blocks and probe not stored) or file with a \
             multi-block non-root index level; distinct = hash(file, probe, op)"
        )
    }

    fn health(&self, tier: Tier) -> Vec<(&'static str, u64)> {
        vec![("multi-block-index-level", tier.pick(20, 500)), ("complete-alphabet", tier.pick(300, 4000))]
    }

    fn fuzz_targets(&self) -> Vec<(&'static str, u64)> {
        vec![("fuzz_cursor", 40_000)]
    }

    fn extra(&self, tier: Tier, _seed: u64, ctx: &crate::runner::ExtraCtx) -> crate::runner::ExtraOut {
        // bounded-exhaustive enumeration: every key set over a tiny alphabet x every probe over it
        crate::smallscope::seeks(tier, ctx.threads)
    }

    fn run(&self, case: &Case, obs: &mut Obs) -> Check {
        let entries = case.spec.src.entries();
        let bytes = write_file(&case.spec.conf, &entries)?;
        let m = Model::new(&entries);
        let (qs, complete) = probe_set(&entries, &case.picks, &case.probes);
        let reader = rd::open(&bytes)?;
        let mut long_lived = rd::guard("into_cursor", || reader.clone().into_cursor())?;
        let mut mk = || rd::guard("into_cursor", || reader.clone().into_cursor());
        for q in &qs {
            check_seeks(&mut mk, &mut long_lived, &m, &entries, q, "c02")?;
        }
        // reset after an arbitrary history
        if !case.pre.is_empty() {
            let mut c = rd::guard("into_cursor", || reader.clone().into_cursor())?;
            for (round, chunk) in case.pre.chunks(20).enumerate() {
                for op in chunk {
                    use crate::model::Op;
                    let cop = match op {
                        Op::First => COp::First,
                        Op::Last => COp::Last,
                        Op::Next => COp::Next,
                        Op::Prev => COp::Prev,
                        Op::Ge(p) => COp::Ge(p.bytes(&entries)),
                        Op::Le(p) => COp::Le(p.bytes(&entries)),
                        Op::Eq(p) => COp::Eq(p.bytes(&entries)),
                        Op::Reset => COp::Reset,
                        Op::Current | Op::CloneSwitch | Op::Swap => continue,
                    };
                    rd::apply(&mut c, &cop)?;
                }
                // run to the end as well: states "past the end" are the interesting ones
                if round % 2 == 0 {
                    for _ in 0..entries.len().min(64) + 1 {
                        if rd::apply(&mut c, &COp::Next)?.is_none() {
                            break;
                        }
                    }
                }
                for q in qs.iter().skip(round * 7).step_by(qs.len() / 6 + 1) {
                    for op in [COp::Ge(q.clone()), COp::Le(q.clone()), COp::Eq(q.clone())] {
                        c.reset();
                        let want = rd::model_abs(&m, &op).map(|i| entries[i].clone());
                        let got = rd::apply(&mut c, &op)?;
                        if got != want {
                            fail!(
                                format!("c02:reset-after-history:{}", &op.show()[..2]),
                                "a cursor that was used (history of {} operations) and then reset: {} on {} entries returned {} but the model says {}",
                                case.pre.len(), op.show(), entries.len(), rd::show(&got), rd::show(&want)
                            );
                        }
                        obs.add("seeks_after_history_and_reset", 1);
                    }
                }
            }
        }
        let d = layout_classes(&case.spec, &bytes, entries.len(), obs);
        if complete {
            obs.class("complete-alphabet");
        }
        let (nd, multi) = d.as_ref().map_or((0, false), |d| (d.n_data_blocks(), d.multi_block_index_depth().is_some()));
        let fh = hash_of(&case.spec);
        let mut absent = 0u64;
        for q in &qs {
            let stored = m.exact(q).is_some();
            if !stored {
                absent += 1;
            }
            if multi || (nd >= 2 && !stored) {
                for op in 0..3u8 {
                    obs.sub_nontrivial.push(hash_of(&(fh, q, op)));
                }
            }
        }
        obs.add("seeks", qs.len() as u64 * 6);
        obs.add("probes_absent", absent);
        obs.add("probes", qs.len() as u64);
        obs.nontrivial = false;
        if multi || nd >= 2 {
            obs.sample = Some(json!({
                "conf": case.spec.conf.label(), "entries": entries.len(), "data_blocks": nd, "probes": qs.len(),
                "complete_alphabet": complete,
                "some_probes": qs.iter().take(4).map(|q| brief(q)).collect::<Vec<_>>(),
            }));
            // mark so that the sample is retained (the distinct count comes from sub_nontrivial)
            obs.nontrivial = true;
        }
        Ok(())
    }
}
