//! C03 — cursor results depend only on content and logical position, not on history.
//!
//! (a) exhaustive breadth-first exploration of every reachable cursor state of small, deep files under
//!     a complete probe alphabet (needs hook H3 for the state fingerprint);
//! (b) long run-biased random histories on larger files (hook-free).

use std::collections::{HashMap, VecDeque};

use proptest::prelude::*;
use serde::{Deserialize, Serialize};
use serde_json::json;

use crate::common::{write_file, Check, Codec, Entries, EntrySrc, Fail, FileSpec, WConf};
use crate::fmtdec;
use crate::gen::{self, Tier};
use crate::model::{complete_alphabet, step_rel, Expect, Model, Op, Pos};
use crate::rd::{self, COp};
use crate::runner::{stage, Obs, Prop, Stage};
use crate::{ensure, fail};

pub struct C03;

#[derive(Clone, Debug, Hash, Serialize, Deserialize)]
pub enum Case {
    /// exhaustive exploration of one small file
    Explore(FileSpec),
    /// one random history on one file
    History { spec: FileSpec, ops: Vec<Op> },
    /// the same on version-1 encodings (single-level index) of the file
    ExploreV1(FileSpec),
    HistoryV1 { spec: FileSpec, ops: Vec<Op> },
    /// history over a reader whose clones share one file position (like `&File`): clones must still be independent
    HistoryShared { spec: FileSpec, ops: Vec<Op> },
    /// history over a reader that itself uses grenad (compressed files) inside every read and seek
    HistoryReentrant { spec: FileSpec, ops: Vec<Op> },
    /// history during which ONE read or seek of the source fails (the `k`-th after opening); the failing call and later
    /// calls may return errors, but every call that returns Ok is judged as usual ("first, last and seeks are
    /// unaffected by anything done before them" — a failed call included); on the V2 or the V1 encoding
    #[serde(rename = "AfterFault")]
    AfterFault { spec: FileSpec, v1: bool, ops: Vec<Op>, k: u16, on_seek: bool },
}

pub fn deep_conf() -> BoxedStrategy<WConf> {
    (
        prop_oneof![8 => Just(Codec::None), 1 => Just(Codec::Snappy), 1 => Just(Codec::Lz4)],
        prop_oneof![1 => Just(0u8), 1 => Just(1u8), 4 => Just(2u8), 3 => Just(3u8), 2 => Just(4u8)],
        prop_oneof![Just(Some(1usize)), Just(Some(2)), Just(None), Just(Some(usize::MAX))],
    )
        .prop_map(|(codec, levels, interval)| WConf { codec, level: 0, block_size: Some(1024), interval, levels })
        .boxed()
}

/// histories in which a cursor and its clones are used alternately
pub fn clone_heavy_history(max_len: usize) -> BoxedStrategy<Vec<Op>> {
    let piece = prop_oneof![
        4 => gen::cursor_op().prop_map(|o| vec![o]),
        2 => (1usize..=25).prop_map(|n| vec![Op::Next; n]),
        2 => (1usize..=25).prop_map(|n| vec![Op::Prev; n]),
        2 => Just(vec![Op::CloneSwitch]),
        3 => Just(vec![Op::Swap]),
    ];
    proptest::collection::vec(piece, 2..=(max_len / 5).max(3))
        .prop_map(move |ps| {
            let mut v: Vec<Op> = ps.into_iter().flatten().collect();
            v.truncate(max_len);
            v
        })
        .boxed()
}

pub fn explore_case(max_n: usize) -> BoxedStrategy<FileSpec> {
    (deep_conf(), gen::deep_small_src(max_n)).prop_map(|(conf, src)| FileSpec { conf, src }).boxed()
}

/// Result of exploring one file.
pub struct Explored {
    pub states: u64,
    pub transitions: u64,
    pub truncated: bool,
}

struct Node<R> {
    cursor: grenad::ReaderCursor<R>,
    pos: Pos,
    parent: Option<(usize, usize)>, // (node index, op index)
}

fn history_of<R>(nodes: &[Node<R>], ops: &[COp], mut at: usize, last: Option<usize>) -> String {
    let mut v = Vec::new();
    if let Some(o) = last {
        v.push(ops[o].show());
    }
    while let Some((p, o)) = nodes[at].parent {
        v.push(ops[o].show());
        at = p;
    }
    v.reverse();
    v.join(", ")
}

pub fn explore(bytes: &[u8], entries: &Entries, max_states: usize) -> Check<Explored> {
    let fresh = rd::cursor(bytes)?;
    explore_with(fresh, entries, max_states, &mut |_, _| Ok(()))
}

/// Exhaustive exploration from `fresh`. `hook(op, history)` runs right after every executed operation (C16 judges the
/// I/O log there).
pub fn explore_with<R: std::io::Read + std::io::Seek + Clone>(
    fresh: grenad::ReaderCursor<R>,
    entries: &Entries,
    max_states: usize,
    hook: &mut dyn FnMut(&COp, &dyn Fn() -> String) -> Check,
) -> Check<Explored> {
    let m = Model::new(entries);
    let n = entries.len();
    let mut ops: Vec<COp> = vec![COp::First, COp::Last, COp::Next, COp::Prev, COp::Reset];
    for q in complete_alphabet(entries) {
        ops.push(COp::Ge(q.clone()));
        ops.push(COp::Le(q.clone()));
        ops.push(COp::Eq(q));
    }
    let mut index: HashMap<(Vec<u64>, Pos), usize> = HashMap::new();
    let mut nodes: Vec<Node<R>> = Vec::new();
    index.insert((fresh.verif_fingerprint(), Pos::Fresh), 0);
    nodes.push(Node { cursor: fresh, pos: Pos::Fresh, parent: None });
    let mut queue: VecDeque<usize> = VecDeque::from([0]);
    let mut transitions = 0u64;
    let mut truncated = false;

    while let Some(at) = queue.pop_front() {
        let pos = nodes[at].pos;
        let fp_before = nodes[at].cursor.verif_fingerprint();
        let cur_before = rd::own(nodes[at].cursor.current());
        // `current` equals the last returned entry while the position is defined
        if let Pos::At(i) = pos {
            if cur_before.as_ref() != Some(&entries[i]) {
                return Err(Fail::new(
                    "c03:current",
                    format!(
                        "after [{}] current() = {} but the last returned entry is #{} {}",
                        history_of(&nodes, &ops, at, None),
                        rd::show(&cur_before),
                        i,
                        rd::show(&Some(entries[i].clone()))
                    ),
                ));
            }
        }
        for (oi, op) in ops.iter().enumerate() {
            let mut c = nodes[at].cursor.clone();
            let got = rd::apply(&mut c, op).map_err(|f| {
                Fail::new(f.signature, format!("after [{}]: {}", history_of(&nodes, &ops, at, Some(oi)), f.msg))
            })?;
            transitions += 1;
            hook(op, &|| history_of(&nodes, &ops, at, Some(oi)))?;
            let (expect, newpos) = match op {
                COp::Reset => (Expect::Nothing, Pos::Fresh),
                COp::Next => step_rel(n, pos, true),
                COp::Prev => step_rel(n, pos, false),
                abs => {
                    let r = rd::model_abs(&m, abs);
                    (Expect::Entry(r), r.map_or(Pos::Undefined, Pos::At))
                }
            };
            if let Expect::Entry(want) = expect {
                let want_e = want.map(|i| entries[i].clone());
                if got != want_e {
                    let kind = if op.is_abs() { "abs" } else { "rel" };
                    return Err(Fail::new(
                        format!("c03:{kind}"),
                        format!(
                            "history [{}] ({} entries): last operation returned {} but the content determines {} (entry #{:?})",
                            history_of(&nodes, &ops, at, Some(oi)),
                            n,
                            rd::show(&got),
                            rd::show(&want_e),
                            want
                        ),
                    ));
                }
            }
            // the clone moved: the original must be untouched
            if nodes[at].cursor.verif_fingerprint() != fp_before || rd::own(nodes[at].cursor.current()) != cur_before {
                return Err(Fail::new(
                    "c03:clone",
                    format!("moving a clone changed its original after [{}]", history_of(&nodes, &ops, at, Some(oi))),
                ));
            }
            let key = (c.verif_fingerprint(), newpos);
            if !index.contains_key(&key) {
                if nodes.len() >= max_states {
                    truncated = true;
                    continue;
                }
                index.insert(key, nodes.len());
                nodes.push(Node { cursor: c, pos: newpos, parent: Some((at, oi)) });
                queue.push_back(nodes.len() - 1);
            }
        }
    }
    Ok(Explored { states: nodes.len() as u64, transitions, truncated })
}

/// Interprets a random history against the model. Returns whether a relative move crossed a
/// boundary between two deepest-level index blocks (levels >= 2) followed by an absolute move.
pub fn run_history(bytes: &[u8], entries: &Entries, ops: &[Op], leaf_of_entry: Option<&[usize]>) -> Check<(bool, u64)> {
    run_history_on(rd::cursor(bytes)?, entries, ops, leaf_of_entry)
}

/// The same over any reader type (e.g. one whose clones share their position).
pub fn run_history_on<R: std::io::Read + std::io::Seek + Clone>(
    c: grenad::ReaderCursor<R>,
    entries: &Entries,
    ops: &[Op],
    leaf_of_entry: Option<&[usize]>,
) -> Check<(bool, u64)> {
    let m = Model::new(entries);
    let n = entries.len();
    let mut c = c;
    let mut pos = Pos::Fresh;
    let mut parked: Vec<(grenad::ReaderCursor<R>, Pos)> = Vec::new();
    let mut crossed = false;
    let mut crossed_then_abs = false;
    let mut trace: Vec<String> = Vec::new();
    let mut judged = 0u64;
    for op in ops {
        let cop = match op {
            Op::First => COp::First,
            Op::Last => COp::Last,
            Op::Next => COp::Next,
            Op::Prev => COp::Prev,
            Op::Ge(p) => COp::Ge(p.bytes(entries)),
            Op::Le(p) => COp::Le(p.bytes(entries)),
            Op::Eq(p) => COp::Eq(p.bytes(entries)),
            Op::Reset => COp::Reset,
            Op::Current => {
                if let Pos::At(i) = pos {
                    let cur = rd::own(c.current());
                    ensure!(
                        cur.as_ref() == Some(&entries[i]),
                        "c03:current",
                        "after [{}] current() = {} but the last returned entry is #{}",
                        trace.join(", "),
                        rd::show(&cur),
                        i
                    );
                    judged += 1;
                }
                trace.push("current".into());
                continue;
            }
            Op::CloneSwitch => {
                let clone = c.clone();
                parked.push((std::mem::replace(&mut c, clone), pos));
                trace.push("clone".into());
                continue;
            }
            Op::Swap => {
                if let Some((pc, ppos)) = parked.pop() {
                    parked.push((std::mem::replace(&mut c, pc), pos));
                    pos = ppos;
                    trace.push("swap-with-parked".into());
                }
                continue;
            }
        };
        trace.push(cop.show());
        if trace.len() > 60 {
            trace.remove(0);
        }
        let got = rd::apply(&mut c, &cop)?;
        let (expect, newpos) = match &cop {
            COp::Reset => (Expect::Nothing, Pos::Fresh),
            COp::Next => step_rel(n, pos, true),
            COp::Prev => step_rel(n, pos, false),
            abs => {
                let r = rd::model_abs(&m, abs);
                (Expect::Entry(r), r.map_or(Pos::Undefined, Pos::At))
            }
        };
        if let Expect::Entry(want) = expect {
            let want_e = want.map(|i| entries[i].clone());
            judged += 1;
            if got != want_e {
                let kind = if cop.is_abs() { "abs" } else { "rel" };
                fail!(
                    format!("c03:{kind}"),
                    "history (last {} ops) [{}] on {} entries: last operation returned {} but the content determines {} (entry #{:?})",
                    trace.len(),
                    trace.join(", "),
                    n,
                    rd::show(&got),
                    rd::show(&want_e),
                    want
                );
            }
        }
        if let (Some(leaf), Pos::At(i), Pos::At(j)) = (leaf_of_entry, pos, newpos) {
            if !cop.is_abs() && leaf[i] != leaf[j] {
                crossed = true;
            }
        }
        if cop.is_abs() && crossed {
            crossed_then_abs = true;
        }
        pos = newpos;
    }
    // parked originals must still be where they were left, and still work
    for (mut pc, ppos) in parked {
        if let Pos::At(i) = ppos {
            let cur = rd::own(pc.current());
            ensure!(
                cur.as_ref() == Some(&entries[i]),
                "c03:clone",
                "a cursor whose clone was moved no longer reports its own position: current() = {} want entry #{}",
                rd::show(&cur),
                i
            );
        }
        let got = rd::apply(&mut pc, &COp::Next)?;
        if let (Expect::Entry(want), _) = step_rel(n, ppos, true) {
            let want_e = want.map(|i| entries[i].clone());
            ensure!(
                got == want_e,
                "c03:clone",
                "a cursor whose clone was moved continues from the wrong place: next = {} want {}",
                rd::show(&got),
                rd::show(&want_e)
            );
        }
    }
    Ok((crossed_then_abs, judged))
}

/// One operation on a real cursor, errors returned as values (panics caught by the caller).
fn apply_raw<R: std::io::Read + std::io::Seek>(c: &mut grenad::ReaderCursor<R>, op: &COp) -> Result<Option<(Vec<u8>, Vec<u8>)>, grenad::Error> {
    match op {
        COp::First => c.move_on_first().map(rd::own),
        COp::Last => c.move_on_last().map(rd::own),
        COp::Next => c.move_on_next().map(rd::own),
        COp::Prev => c.move_on_prev().map(rd::own),
        COp::Ge(q) => c.move_on_key_greater_than_or_equal_to(q).map(rd::own),
        COp::Le(q) => c.move_on_key_lower_than_or_equal_to(q).map(rd::own),
        COp::Eq(q) => c.move_on_key_equal_to(q).map(rd::own),
        COp::Reset => {
            c.reset();
            Ok(None)
        }
    }
}

/// A history during which the `k`-th read (or seek) issued after opening fails once. An `Err` is accepted from the
/// failing call and from any later call (a cursor may refuse to work after a failure; C12 judges the failing call
/// itself) and makes the model position undefined; before the fault no error is accepted; every `Ok` result is judged
/// by the position machine exactly as in a fault-free history. Returns (fault fired, results judged after it fired).
pub fn run_after_fault(bytes: &[u8], entries: &Entries, ops: &[Op], k: u64, on_seek: bool) -> Check<(bool, u64)> {
    use crate::ioinstr::{self, ErrKind, FaultPlan, Kind};
    let ctl = ioinstr::ctl();
    let src = ioinstr::Source::new(std::rc::Rc::new(bytes.to_vec()), ctl.clone());
    let reader = rd::guard("Reader::new", || grenad::Reader::new(src))?;
    let mut c = rd::guard("into_cursor", || reader.into_cursor())?;
    let kind = if on_seek { Kind::Seek } else { Kind::Read };
    {
        let mut g = ctl.borrow_mut();
        let base = g.counts[kind.idx()];
        g.fault = Some(FaultPlan { kind, k: base + k, err: ErrKind::Other });
    }
    let m = Model::new(entries);
    let n = entries.len();
    let mut pos = Pos::Fresh;
    let mut trace: Vec<String> = Vec::new();
    let mut judged_after = 0u64;
    for op in ops {
        let cop = match op {
            Op::First => COp::First,
            Op::Last => COp::Last,
            Op::Next => COp::Next,
            Op::Prev => COp::Prev,
            Op::Ge(p) => COp::Ge(p.bytes(entries)),
            Op::Le(p) => COp::Le(p.bytes(entries)),
            Op::Eq(p) => COp::Eq(p.bytes(entries)),
            Op::Reset => COp::Reset,
            Op::Current | Op::CloneSwitch | Op::Swap => continue,
        };
        let r = crate::common::catch(|| apply_raw(&mut c, &cop));
        let fired = ctl.borrow().fired;
        let got = match r {
            Err(p) => fail!(format!("c03:{}", crate::common::panic_sig(&p)), "after [{}] {} panicked: {}", trace.join(", "), cop.show(), p),
            Ok(Err(e)) => {
                ensure!(fired, "c03:err", "after [{}] {} failed although no component had failed: {:?}", trace.join(", "), cop.show(), e);
                trace.push(format!("{} -> Err", cop.show()));
                pos = Pos::Undefined;
                continue;
            }
            Ok(Ok(g)) => g,
        };
        trace.push(cop.show());
        if trace.len() > 40 {
            trace.remove(0);
        }
        let (expect, newpos) = match &cop {
            COp::Reset => (Expect::Nothing, Pos::Fresh),
            COp::Next => step_rel(n, pos, true),
            COp::Prev => step_rel(n, pos, false),
            abs => {
                let r = rd::model_abs(&m, abs);
                (Expect::Entry(r), r.map_or(Pos::Undefined, Pos::At))
            }
        };
        if let Expect::Entry(want) = expect {
            let want_e = want.map(|i| entries[i].clone());
            if fired {
                judged_after += 1;
            }
            ensure!(
                got == want_e,
                if cop.is_abs() { "c03:abs" } else { "c03:rel" },
                "history [{}] on {} entries ({}): last operation returned Ok({}) but the content determines {}",
                trace.join(", "),
                n,
                if fired { "one source call had failed earlier" } else { "no failure yet" },
                rd::show(&got),
                rd::show(&want_e)
            );
        }
        pos = newpos;
    }
    let fired = ctl.borrow().fired;
    Ok((fired, judged_after))
}

/// for every entry, the deepest-level index block referencing its data block
pub fn leaf_map(d: &fmtdec::Decoded) -> Vec<usize> {
    d.entry_block.iter().map(|b| d.blocks[*b].parent.unwrap_or(usize::MAX)).collect()
}

impl Prop for C03 {
    type Case = Case;

    fn id(&self) -> &'static str {
        "C03"
    }

    fn stages(&self, tier: Tier) -> Vec<Stage<Case>> {
        let hist_len = 200;
        vec![
            stage("explore", explore_case(tier.pick(14, 24)).prop_map(Case::Explore), tier.pick(160, 2000)).shrink(40),
            stage(
                "history-deep",
                (explore_case(40), gen::history(hist_len)).prop_map(|(spec, ops)| Case::History { spec, ops }),
                tier.pick(2400, 30_000),
            )
            .shrink(600),
            stage(
                "history",
                (gen::file_spec_light(tier), gen::history(hist_len)).prop_map(|(spec, ops)| Case::History { spec, ops }),
                tier.pick(3200, 40_000),
            )
            .shrink(600),
            stage(
                "shared-position-reader",
                (prop_oneof![2 => gen::file_spec_light(tier), 1 => explore_case(40)], clone_heavy_history(hist_len)).prop_map(|(spec, ops)| Case::HistoryShared { spec, ops }),
                tier.pick(1200, 15_000),
            )
            .shrink(400),
            stage(
                "reentrant-reader",
                (gen::file_spec_light(tier), gen::history(60)).prop_map(|(spec, ops)| Case::HistoryReentrant { spec, ops }),
                tier.pick(600, 8000),
            )
            .shrink(200),
            stage(
                "v1",
                prop_oneof![
                    1 => explore_case(tier.pick(10, 16)).prop_map(Case::ExploreV1),
                    6 => (gen::file_spec_light(tier), gen::history(hist_len)).prop_map(|(spec, ops)| Case::HistoryV1 { spec, ops }),
                    3 => (explore_case(40), gen::history(hist_len)).prop_map(|(spec, ops)| Case::HistoryV1 { spec, ops }),
                ],
                tier.pick(1200, 15_000),
            )
            .shrink(100),
            stage(
                "after-fault",
                (prop_oneof![2 => gen::file_spec_light(tier), 1 => explore_case(40)], any::<bool>(), gen::history(80), prop_oneof![3 => 0u16..12, 2 => 12u16..60, 1 => 60u16..300], any::<bool>())
                    .prop_map(|(spec, v1, ops, k, on_seek)| Case::AfterFault { spec, v1, ops, k, on_seek }),
                tier.pick(2400, 30_000),
            )
            .shrink(400),
        ]
    }

    fn rule(&self) -> String {
        "(a) Explore: breadth-first search over (cursor fingerprint, model position) from the fresh cursor of a small file \
         (block 1024, ~500-byte keys) with alphabet {first,last,next,prev,reset} + {GE,LE,EQ} x one probe per key-order \
         equivalence class; every transition judged by the position machine of DESIGN 6.1, successors made on clones. \
         Non-trivial file = index_levels>=2 and a non-root index level with >=2 blocks. (b) History: up to 200 run-biased \
         operations; non-trivial = a relative move crossed between two deepest-level index blocks (levels>=2) and an \
         absolute move came later. distinct = hash of the case"
            .into()
    }

    fn health(&self, tier: Tier) -> Vec<(&'static str, u64)> {
        vec![("explore:nontrivial", tier.pick(20, 600)), ("history:crossed-then-abs", tier.pick(100, 3000)), ("v1:multi-block", tier.pick(100, 3000)), ("after-fault:abs-judged", tier.pick(300, 4000)), ("shared:clone-and-swap", tier.pick(300, 4000)), ("reentrant:compressed", tier.pick(150, 2000))]
    }

    fn assumptions(&self) -> Vec<String> {
        vec![
            "relative moves issued after an operation returned None are executed but not judged (DESIGN 6.1)".into(),
            "the state fingerprint of hook H3 (recorded offsets, block hashes, in-block offsets per level) identifies the cursor state".into(),
        ]
    }

    fn fuzz_targets(&self) -> Vec<(&'static str, u64)> {
        vec![("fuzz_cursor", 40_000)]
    }

    fn run(&self, case: &Case, obs: &mut Obs) -> Check {
        match case {
            Case::ExploreV1(spec) | Case::HistoryV1 { spec, .. } => {
                let mut spec = spec.clone();
                spec.conf.levels = 0;
                let entries = spec.src.entries();
                let v2 = write_file(&spec.conf, &entries)?;
                let v1 = crate::props::c10::to_v1(&v2).map_err(|e| Fail::new("c03:harness", e))?;
                let nd = fmtdec::decode(&v2, &fmtdec::Opts::lax()).map(|d| d.n_data_blocks()).unwrap_or(0);
                let retag = |f: Fail| Fail::new(format!("{}:v1", f.signature), format!("on the version-1 encoding: {}", f.msg));
                match case {
                    Case::ExploreV1(_) => {
                        let r = explore(&v1, &entries, 60_000).map_err(retag)?;
                        obs.add("states", r.states);
                        obs.add("transitions", r.transitions);
                        obs.class("v1:explore");
                    }
                    Case::HistoryV1 { ops, .. } => {
                        let (_, judged) = run_history(&v1, &entries, ops, None).map_err(retag)?;
                        obs.add("history_judged", judged);
                        obs.add("history_ops", ops.len() as u64);
                        obs.class("v1:history");
                    }
                    _ => unreachable!(),
                }
                obs.nontrivial = nd >= 2;
                if nd >= 2 {
                    obs.class("v1:multi-block");
                }
                obs.sample = Some(json!({"kind": "v1", "conf": spec.conf.label(), "entries": entries.len(), "data_blocks": nd}));
                Ok(())
            }
            Case::AfterFault { spec, v1, ops, k, on_seek } => {
                let mut spec = spec.clone();
                if *v1 {
                    spec.conf.levels = 0;
                }
                let entries = spec.src.entries();
                let mut bytes = write_file(&spec.conf, &entries)?;
                if *v1 {
                    bytes = crate::props::c10::to_v1(&bytes).map_err(|e| Fail::new("c03:harness", e))?;
                }
                let (fired, judged_after) = run_after_fault(&bytes, &entries, ops, *k as u64, *on_seek)
                    .map_err(|f| Fail::new(format!("{}:after-fault", f.signature), format!("{} encoding, one injected {} failure: {}", if *v1 { "version-1" } else { "version-2" }, if *on_seek { "seek" } else { "read" }, f.msg)))?;
                obs.nontrivial = fired && judged_after >= 1;
                if obs.nontrivial {
                    obs.class("after-fault:abs-judged");
                }
                if fired {
                    obs.class(if *v1 { "after-fault:v1" } else { "after-fault:v2" });
                }
                obs.add("after_fault_judged", judged_after);
                obs.sample = Some(json!({"kind": "after-fault", "v1": v1, "conf": spec.conf.label(), "entries": entries.len(), "ops": ops.len(), "k": k, "on_seek": on_seek, "fired": fired, "judged_after_fault": judged_after}));
                Ok(())
            }
            Case::HistoryShared { spec, ops } => {
                let entries = spec.src.entries();
                let bytes = write_file(&spec.conf, &entries)?;
                let src = crate::ioinstr::SharedSource::new(std::rc::Rc::new(bytes));
                let reader = rd::guard("Reader::new", || grenad::Reader::new(src))?;
                let c = rd::guard("into_cursor", || reader.into_cursor())?;
                let (_, judged) = run_history_on(c, &entries, ops, None)
                    .map_err(|f| Fail::new(format!("{}:shared-position-reader", f.signature), format!("with a reader whose clones share their position: {}", f.msg)))?;
                let swaps = ops.iter().filter(|o| matches!(o, Op::Swap)).count();
                let clones = ops.iter().filter(|o| matches!(o, Op::CloneSwitch)).count();
                obs.add("history_judged", judged);
                obs.add("history_ops", ops.len() as u64);
                obs.nontrivial = clones >= 1 && swaps >= 1 && entries.len() >= 10;
                if obs.nontrivial {
                    obs.class("shared:clone-and-swap");
                }
                obs.sample = Some(json!({"kind": "history-shared-position", "conf": spec.conf.label(), "entries": entries.len(), "ops": ops.len(), "clones": clones, "swaps": swaps}));
                Ok(())
            }
            Case::HistoryReentrant { spec, ops } => {
                let entries = spec.src.entries();
                let bytes = write_file(&spec.conf, &entries)?;
                let src = crate::ioinstr::ReentrantSource::new(std::rc::Rc::new(bytes));
                let calls = src.calls.clone();
                let reader = rd::guard("Reader::new", || grenad::Reader::new(src))?;
                let c = rd::guard("into_cursor", || reader.into_cursor())?;
                let (_, judged) = run_history_on(c, &entries, ops, None)
                    .map_err(|f| Fail::new(format!("{}:reentrant-reader", f.signature), format!("with a reader that uses grenad itself inside read/seek: {}", f.msg)))?;
                obs.add("history_judged", judged);
                obs.add("reentrant_inner_uses", calls.get());
                obs.nontrivial = spec.conf.codec != Codec::None && calls.get() >= 10;
                if obs.nontrivial {
                    obs.class("reentrant:compressed");
                }
                obs.sample = Some(json!({"kind": "history-reentrant-reader", "conf": spec.conf.label(), "entries": entries.len(), "ops": ops.len(), "inner_grenad_uses": calls.get()}));
                Ok(())
            }
            Case::Explore(spec) => {
                let entries = spec.src.entries();
                let bytes = write_file(&spec.conf, &entries)?;
                let d = fmtdec::decode(&bytes, &fmtdec::Opts::lax()).ok();
                let r = explore(&bytes, &entries, 60_000)?;
                obs.add("states", r.states);
                obs.add("transitions", r.transitions);
                obs.add("explored_files", 1);
                if r.truncated {
                    obs.add("explore_truncated", 1);
                }
                let multi = d.as_ref().and_then(|d| d.multi_block_index_depth());
                let nt = spec.conf.levels >= 2 && multi.is_some() && !r.truncated;
                if nt {
                    obs.class("explore:nontrivial");
                }
                obs.class(format!("explore:levels={}", spec.conf.levels));
                obs.nontrivial = nt;
                obs.sample = Some(json!({
                    "kind": "explore", "conf": spec.conf.label(), "entries": entries.len(),
                    "blocks_per_depth": d.as_ref().map(|d| d.per_depth()),
                    "states": r.states, "transitions": r.transitions,
                }));
                Ok(())
            }
            Case::History { spec, ops } => {
                let entries = spec.src.entries();
                let bytes = write_file(&spec.conf, &entries)?;
                let d = fmtdec::decode(&bytes, &fmtdec::Opts::lax()).ok();
                let leaf = d.as_ref().filter(|d| d.trailer.levels >= 2).map(leaf_map);
                let (crossed, judged) = run_history(&bytes, &entries, ops, leaf.as_deref())?;
                obs.add("history_ops", ops.len() as u64);
                obs.add("history_judged", judged);
                if crossed {
                    obs.class("history:crossed-then-abs");
                }
                if ops.iter().any(|o| matches!(o, Op::CloneSwitch)) {
                    obs.class("history:with-clone");
                }
                obs.nontrivial = crossed;
                obs.sample = Some(json!({
                    "kind": "history", "conf": spec.conf.label(), "entries": entries.len(), "ops": ops.len(),
                    "first_ops": ops.iter().take(12).map(|o| format!("{:?}", o)).collect::<Vec<_>>(),
                }));
                Ok(())
            }
        }
    }
}

#[allow(dead_code)]
fn _unused(_: EntrySrc) {}
