//! C15 — blocks are cut at the configured block size.

use proptest::collection::vec;
use proptest::prelude::*;
use serde_json::json;

use crate::common::{write_file, Blob, Check, Codec, EntrySrc, FileSpec, WConf};
use crate::fmtdec::{self, Decoded};
use crate::gen::{self, Tier};
use crate::runner::{stage, Obs, Prop, Stage};
use crate::fail;

pub struct C15;

/// The oracle on the independent decoder's block table. `b` = max(1024, configured), `iv` = interval.
pub fn check_cuts(d: &Decoded, b: usize, iv: usize) -> Check<(u64, u64)> {
    let levels = d.trailer.levels as usize;
    let mut judged = 0u64;
    let mut judged_lower = 0u64;
    // last block (highest offset) per depth
    let mut last_of_depth = vec![0u64; levels + 2];
    for bl in &d.blocks {
        let Some(dp) = bl.depth else { continue };
        last_of_depth[dp] = last_of_depth[dp].max(bl.offset);
    }
    for bl in &d.blocks {
        let Some(dp) = bl.depth else { continue };
        let is_data = dp == levels + 1;
        if !(is_data || dp >= 2) || bl.entries.is_empty() {
            continue;
        }
        let n = bl.entries.len();
        let last = &bl.entries[n - 1];
        let opened_slot = n - 1 > 0 && (n - 1) % iv == 0;
        let u = bl.raw_len;
        let without_last = u - last.enc_size - if opened_slot { 8 } else { 0 };
        judged += 1;
        if without_last >= b {
            fail!(
                "c15:late-cut",
                "block@{} (depth {}, {} entries, {} bytes uncompressed) would already have reached B={} without its final entry ({} bytes)",
                bl.offset, dp, n, u, b, without_last
            );
        }
        if bl.offset != last_of_depth[dp] {
            judged_lower += 1;
            if u < b {
                fail!(
                    "c15:early-cut",
                    "block@{} (depth {}, {} entries) was emitted at {} uncompressed bytes, below B={}, although it is not the last block of its level",
                    bl.offset, dp, n, u, b
                );
            }
        }
    }
    Ok((judged, judged_lower))
}

/// entry sizes near fractions / multiples of the block size
fn sized_src(b: usize) -> BoxedStrategy<EntrySrc> {
    let sizes: Vec<usize> = vec![b / 3, b / 2, b.saturating_sub(20), b.saturating_sub(13), b.saturating_sub(12), b.saturating_sub(1), b, b + 1, 3 * b, 1, 10, 100];
    let val = (prop::sample::select(sizes), -6i32..=6, any::<u8>()).prop_map(|(s, d, fill)| Blob::Pad {
        fill,
        n: (s as i64 + d as i64).clamp(0, 200_000) as u32,
        tail: vec![],
    });
    vec((gen::key_ascii(), val), 0..=40).prop_map(EntrySrc::List).boxed()
}

fn cut_case(tier: Tier) -> BoxedStrategy<FileSpec> {
    let near = (
        prop::sample::select(vec![0usize, 1024, 1025, 1500, 2048, 4096, 8192]),
        prop::sample::select(vec![1usize, 2, 8, 3]),
        0u8..=5,
        prop_oneof![4 => Just(Codec::None), 1 => gen::codec()],
    )
        .prop_flat_map(|(bs, iv, levels, codec)| {
            sized_src(bs.max(1024)).prop_map(move |src| FileSpec {
                conf: WConf { codec, level: 1, block_size: Some(bs), interval: Some(iv), levels },
                src,
            })
        });
    // block sizes of several MiB (lengths framed in 4 bytes), one to three entries aimed at B - 20 .. B + 1
    let near_big = (
        prop_oneof![2 => (1usize << 21)..(1usize << 21) + 4096, 2 => 2_100_000usize..4_300_000, 1 => 1_000_000usize..2_097_152],
        prop::sample::select(vec![1usize, 8]),
        0u8..=2,
        vec((prop::sample::select(vec![40i64, 20, 14, 13, 12, 11, 1, 0, -1]), -3i64..=3, 0u8..3), 1..=3),
    )
        .prop_map(|(bs, iv, levels, shapes)| {
            let list = shapes
                .iter()
                .enumerate()
                .map(|(i, (back, d, klen))| {
                    let key = vec![b'a' + i as u8; 1 + *klen as usize];
                    // total entry = varint(klen) + varint(vlen) + key + value; aim the block estimate at B - back + d
                    let n = (bs as i64 - back + d - key.len() as i64 - 5 - 12).max(0) as u32;
                    (Blob::Lit(key), Blob::Pad { fill: 0x11 + i as u8, n, tail: vec![] })
                })
                .collect();
            FileSpec { conf: WConf { codec: Codec::None, level: 0, block_size: Some(bs), interval: Some(iv), levels }, src: EntrySrc::List(list) }
        });
    prop_oneof![
        40 => near,
        40 => gen::file_spec(tier),
        20 => (super::c03::deep_conf(), gen::deep_small_src(60)).prop_map(|(conf, src)| FileSpec { conf, src }),
        1 => near_big,
    ]
    .boxed()
}

impl Prop for C15 {
    type Case = FileSpec;

    fn id(&self) -> &'static str {
        "C15"
    }

    fn stages(&self, tier: Tier) -> Vec<Stage<FileSpec>> {
        vec![stage("files", cut_case(tier), tier.pick(10_000, 150_000)).shrink(800)]
    }

    fn rule(&self) -> String {
        "case = file (general generator; entry sizes near B/3, B/2, B-1, B, 3B with intervals 1,2,3,8; deep small files). \
         Oracle on the independent decoder's block table with B = max(1024, configured): every data block and every index \
         block at depth >= 2 satisfies U - size(last entry) - (8 if the last entry opened an offset slot) < B, and every \
         such block that is not the last of its level has U >= B. non-trivial = file with >=3 data blocks or a depth>=2 \
         index level with >=2 blocks; distinct = hash(file)"
            .into()
    }

    fn health(&self, tier: Tier) -> Vec<(&'static str, u64)> {
        vec![("cut:nontrivial", tier.pick(600, 20_000)), ("cut:deep-index", tier.pick(100, 3000))]
    }

    fn fuzz_targets(&self) -> Vec<(&'static str, u64)> {
        vec![("fuzz_writer", 40_000)]
    }

    fn run(&self, spec: &FileSpec, obs: &mut Obs) -> Check {
        let entries = spec.src.entries();
        let bytes = write_file(&spec.conf, &entries)?;
        let d = match fmtdec::decode(&bytes, &fmtdec::Opts::lax()) {
            Ok(d) => d,
            Err(e) => fail!("c15:undecodable", "cannot decode the file to measure its blocks: {e}"),
        };
        let (judged, lower) = check_cuts(&d, spec.conf.eff_block(), spec.conf.eff_interval())?;
        obs.add("blocks_judged", judged);
        obs.add("blocks_judged_lower_bound", lower);
        let pd = d.per_depth();
        let deep = (2..=d.trailer.levels as usize).any(|dp| pd[dp] >= 2);
        let nt = d.n_data_blocks() >= 3 || deep;
        if nt {
            obs.class("cut:nontrivial");
        }
        if deep {
            obs.class("cut:deep-index");
        }
        obs.class(format!("codec={}", spec.conf.codec.name()));
        obs.nontrivial = nt;
        obs.sample = Some(json!({"conf": spec.conf.label(), "entries": entries.len(), "blocks_per_depth": pd.iter().take(8).collect::<Vec<_>>(),
            "largest_block": d.blocks.iter().map(|b| b.raw_len).max()}));
        Ok(())
    }
}
