//! C06 — k-way merge yields the ordered key union, values merged once in source order.

use std::collections::BTreeMap;
use std::io::Cursor;

use proptest::collection::vec;
use proptest::prelude::*;
use serde::{Deserialize, Serialize};
use serde_json::json;

use crate::common::{brief, catch, panic_sig, write_file, Check, Entries, EntrySrc, Fail, WConf};
use crate::fmtdec;
use crate::gen::{self, Tier};
use crate::rd;
use crate::runner::{stage, Obs, Prop, Stage};
use crate::sm::{merge_pure, record, MergeKind, MF};
use crate::{ensure, fail};

pub struct C06;

#[derive(Clone, Debug, Hash, Serialize, Deserialize)]
pub struct SourceSpec {
    /// inclusion probability class: 0 = none, 1 = 10 %, 2 = 50 %, 3 = all
    pub density: u8,
    /// one byte per universe key (cycled) deciding inclusion
    pub mask: Vec<u8>,
    pub conf: WConf,
}

#[derive(Clone, Debug, Hash, Serialize, Deserialize)]
pub struct Case {
    /// only the keys are used
    pub universe: EntrySrc,
    pub sources: Vec<SourceSpec>,
    pub kind: MergeKind,
    /// how sources are handed to the builder: 0 add, 1 push, 2 extend, 3 alternate
    pub add_style: u8,
    pub out_conf: WConf,
}

/// Very many sources (source positions beyond 255 and beyond 65 535), almost all of them empty, a few holding a
/// shared key: the order of values must still follow the position at which the sources were added.
#[derive(Clone, Debug, Hash, Serialize, Deserialize)]
pub struct ManyCase {
    pub k: u32,
    /// (position selector, where: 0 = near the front, 1 = near the end, 2 = just past 65 536, 3 = just past 256, 4 = anywhere)
    pub holders: Vec<(u16, u8)>,
    pub kind: MergeKind,
    pub add_style: u8,
}

#[derive(Clone, Debug, Hash, Serialize, Deserialize)]
pub enum TopCase {
    Std(Case),
    Many(ManyCase),
}

pub fn many_positions(c: &ManyCase) -> Vec<usize> {
    let k = c.k as usize;
    let mut v: Vec<usize> = c
        .holders
        .iter()
        .map(|(sel, place)| {
            let s = *sel as usize;
            match place % 5 {
                0 => (s % 24).min(k - 1),
                1 => k - 1 - (s % 24).min(k - 1),
                2 => (65_536 + s % 24).min(k - 1),
                3 => (256 + s % 24).min(k - 1),
                _ => crate::common::pick(*sel, k),
            }
        })
        .collect();
    v.sort();
    v.dedup();
    v
}

/// The source files of a case: per source the sorted entries.
pub fn materialise(case: &Case) -> Vec<Entries> {
    let keys: Vec<Vec<u8>> = case.universe.entries().into_iter().map(|e| e.0).take(300).collect();
    case.sources
        .iter()
        .enumerate()
        .map(|(s, spec)| {
            let thr: u16 = match spec.density {
                0 => 0,
                1 => 26,
                2 => 128,
                _ => 256,
            };
            keys.iter()
                .enumerate()
                .filter(|(i, _)| !spec.mask.is_empty() && (spec.mask[i % spec.mask.len()] as u16) < thr || thr == 256)
                .map(|(i, k)| {
                    let tag = [s as u8, (i >> 8) as u8, i as u8, 0x5a];
                    let v = match case.kind {
                        MergeKind::Concat => record(&tag),
                        MergeKind::SumU32 => ((s as u32 + 1) * 1000 + i as u32).to_le_bytes().to_vec(),
                        _ => tag.to_vec(),
                    };
                    (k.clone(), v)
                })
                .collect()
        })
        .collect()
}

fn merge_err<T>(what: &str, r: Result<Result<T, grenad::Error<crate::sm::MergeErr>>, String>) -> Check<T> {
    match r {
        Ok(Ok(v)) => Ok(v),
        Ok(Err(e)) => Err(Fail::new(format!("c06:err:{what}"), format!("{what} failed without any component failing: {:?}", e))),
        Err(p) => Err(Fail::new(format!("c06:{}", panic_sig(&p)), format!("{what} panicked: {p}"))),
    }
}

pub fn build_merger<'a>(files: &'a [Vec<u8>], mf: MF, add_style: u8) -> Check<grenad::Merger<Cursor<&'a [u8]>, MF>> {
    let mut cursors = Vec::new();
    for f in files {
        cursors.push(rd::cursor(f)?);
    }
    // sources with a past (add_style / 4: 0 = fresh cursors; 1 = every second, 2 = every cursor was moved around and
    // then `reset()`, which C03 defines as equivalent to a never-positioned cursor; cursors that are still positioned
    // or exhausted when added are NOT generated: no property says what a merger does with them)
    let past = (add_style / 4) % 3;
    if past != 0 {
        for (i, c) in cursors.iter_mut().enumerate() {
            if past == 2 || i % 2 == 1 {
                let r = catch(|| {
                    let _ = c.move_on_last();
                    let _ = c.move_on_prev();
                    match i % 3 {
                        0 => {
                            let _ = c.move_on_key_greater_than_or_equal_to([0xffu8; 600]);
                        }
                        1 => {
                            let _ = c.move_on_first();
                            while let Ok(Some(_)) = c.move_on_next() {}
                        }
                        _ => {
                            let _ = c.move_on_key_lower_than_or_equal_to(b"");
                        }
                    }
                    c.reset();
                });
                if let Err(p) = r {
                    return Err(Fail::new(format!("c06:{}", panic_sig(&p)), format!("moving a source cursor around before reset panicked: {p}")));
                }
            }
        }
    }
    let mut b = grenad::Merger::builder(mf);
    match add_style % 4 {
        0 => {
            for c in cursors {
                b = b.add(c);
            }
        }
        1 => {
            for c in cursors {
                b.push(c);
            }
        }
        2 => b.extend(cursors),
        _ => {
            for (i, c) in cursors.into_iter().enumerate() {
                if i % 2 == 0 {
                    b = b.add(c);
                } else {
                    b.push(c);
                }
            }
        }
    }
    Ok(b.build())
}

impl Prop for C06 {
    type Case = TopCase;

    fn id(&self) -> &'static str {
        "C06"
    }

    fn stages(&self, tier: Tier) -> Vec<Stage<TopCase>> {
        let universe = prop_oneof![
            3 => gen::list_src(gen::key_ascii(), Just(crate::common::Blob::Lit(vec![])).boxed(), 300),
            2 => gen::list_src(gen::key_tiny(), Just(crate::common::Blob::Lit(vec![])).boxed(), 120),
            1 => gen::list_src(gen::key_half_block(), Just(crate::common::Blob::Lit(vec![])).boxed(), 40),
            2 => gen::list_src(gen::key_path(), Just(crate::common::Blob::Lit(vec![])).boxed(), 120),
            1 => gen::list_src(gen::key_any(), Just(crate::common::Blob::Lit(vec![])).boxed(), 120),
            2 => gen::counter_src(300),
        ];
        let source = (0u8..4, vec(any::<u8>(), 1..40), gen::wconf_light()).prop_map(|(density, mask, conf)| SourceSpec { density, mask, conf });
        let s = (universe, vec(source, 0..=8), prop::sample::select(&MergeKind::ALL[..]), 0u8..12, gen::wconf_light())
            .prop_map(|(universe, sources, kind, add_style, out_conf)| Case { universe, sources, kind, add_style, out_conf });
        let many = (
            prop_oneof![2 => 257u32..400, 3 => 65_537u32..65_700, 1 => 2u32..64],
            vec((any::<u16>(), 0u8..5), 2..=6),
            prop::sample::select(&MergeKind::ALL[..]),
            0u8..4,
        )
            .prop_map(|(k, holders, kind, add_style)| TopCase::Many(ManyCase { k, holders, kind, add_style }));
        vec![stage("merges", s.prop_map(TopCase::Std), tier.pick(6000, 80_000)).shrink(600), stage("many-sources", many, tier.pick(48, 1000)).shrink(20)]
    }

    fn rule(&self) -> String {
        "case = key universe (<=300 keys) x 0..=8 sources, each a random subset (density none/10%/50%/all) written with its own \
         writer configuration, values tagged (source, key) x merge function in {concat (Owned), first, last (Borrowed), \
         u32 sum} x add/push/extend x output writer configuration. Oracle: output keys strictly ascending = union; for a key \
         in >=2 sources exactly one logged merge call whose values are the sources' values in the order the sources were \
         added, and the yielded value is that call's result; for a key in one source the yielded value is the source's value \
         (0 or 1 logged call with exactly that value); no call for other keys; write_into_stream_writer + read back = same \
         content, len() = distinct keys. non-trivial = >=2 sources share a key and one source has >=2 data blocks; \
         distinct = hash(case)"
            .into()
    }

    fn health(&self, tier: Tier) -> Vec<(&'static str, u64)> {
        vec![("merge:nontrivial", tier.pick(600, 8000)), ("merge:k=0", tier.pick(100, 1500)), ("merge:empty-source", tier.pick(600, 8000))]
    }

    fn extra(&self, _tier: Tier, _seed: u64, _ctx: &crate::runner::ExtraCtx) -> crate::runner::ExtraOut {
        // bounded-exhaustive: EVERY assignment of the keys {"", 00, ff} to three sources (8^3 overlap patterns, incl. empty
        // sources), for every merge function and two ways of adding the sources
        let mut out = crate::runner::ExtraOut::default();
        let keys: Vec<(crate::common::Blob, crate::common::Blob)> =
            [vec![], vec![0u8], vec![0xffu8]].into_iter().map(|k| (crate::common::Blob::Lit(k), crate::common::Blob::Lit(vec![]))).collect();
        let mut n = 0u64;
        'all: for assignment in 0..512u32 {
            for kind in MergeKind::ALL {
                for add_style in [0u8, 2] {
                    let sources = (0..3)
                        .map(|s| SourceSpec {
                            density: 2,
                            mask: (0..3).map(|k| if assignment >> (s * 3 + k) & 1 == 1 { 0u8 } else { 255 }).collect(),
                            conf: WConf::plain(),
                        })
                        .collect();
                    let case = Case { universe: EntrySrc::List(keys.clone()), sources, kind, add_style, out_conf: WConf::plain() };
                    let mut obs = Obs::default();
                    let r = catch(|| self.run(&TopCase::Std(case.clone()), &mut obs)).unwrap_or_else(|p| Err(Fail::new("c06:harness-panic", p)));
                    n += 1;
                    if let Err(f) = r {
                        out.violations.push((Fail::new(format!("{}:small-scope", f.signature), format!("key-to-source assignment {assignment:09b}, {:?}: {}", kind, f.msg)), serde_json::to_value(&TopCase::Std(case)).unwrap_or_default()));
                        break 'all;
                    }
                }
            }
        }
        out.evaluations = n;
        out.nontrivial = n;
        out.counters.insert("small_scope_merges".into(), n);
        out.samples.push(json!({"kind": "small-scope", "keys": ["", "00", "ff"], "sources": 3, "assignments": 512, "merge_functions": 4, "merges": n}));
        out
    }

    fn run(&self, top: &TopCase, obs: &mut Obs) -> Check {
        let many_case;
        let (case, srcs, files): (&Case, Vec<Entries>, Vec<Vec<u8>>) = match top {
            TopCase::Std(case) => {
                let srcs = materialise(case);
                let mut files = Vec::new();
                for (s, e) in srcs.iter().enumerate() {
                    files.push(write_file(&case.sources[s].conf, e)?);
                }
                (case, srcs, files)
            }
            TopCase::Many(mc) => {
                let positions = many_positions(mc);
                let plain = WConf::plain();
                let empty = write_file(&plain, &[])?;
                let mut srcs: Vec<Entries> = vec![Vec::new(); mc.k as usize];
                let mut files: Vec<Vec<u8>> = vec![empty; mc.k as usize];
                for (j, p) in positions.iter().enumerate() {
                    let tag = [(*p >> 16) as u8, (*p >> 8) as u8, *p as u8, 0x5a];
                    let v = match mc.kind {
                        MergeKind::Concat => record(&tag),
                        MergeKind::SumU32 => (*p as u32 + 1).to_le_bytes().to_vec(),
                        _ => tag.to_vec(),
                    };
                    // every holder has the shared key and a key of its own
                    let mut e = vec![(b"shared".to_vec(), v.clone()), (format!("own-{j:03}").into_bytes(), v)];
                    e.sort();
                    files[*p] = write_file(&plain, &e)?;
                    srcs[*p] = e;
                }
                many_case = Case { universe: EntrySrc::List(vec![]), sources: vec![], kind: mc.kind, add_style: mc.add_style, out_conf: plain };
                obs.class(if mc.k > 65_536 { "merge:k>65536" } else if mc.k > 256 { "merge:k>256" } else { "merge:many-small" });
                (&many_case, srcs, files)
            }
        };
        // model: key -> [(source index, value)]
        let mut model: BTreeMap<Vec<u8>, Vec<(usize, Vec<u8>)>> = BTreeMap::new();
        for (s, e) in srcs.iter().enumerate() {
            for (k, v) in e {
                model.entry(k.clone()).or_default().push((s, v.clone()));
            }
        }
        // (1) streaming
        let (mf, log) = MF::logged(case.kind);
        let merger = build_merger(&files, mf, case.add_style)?;
        let mut it = merge_err("into_stream_merger_iter", catch(|| merger.into_stream_merger_iter().map_err(|e| match e {
            grenad::Error::Io(e) => grenad::Error::Io(e),
            grenad::Error::InvalidCompressionType => grenad::Error::InvalidCompressionType,
            grenad::Error::InvalidFormatVersion => grenad::Error::InvalidFormatVersion,
            grenad::Error::Merge(_) => unreachable!(),
        })))?;
        let mut out: Entries = Vec::new();
        loop {
            let e = merge_err("MergerIter::next", catch(|| it.next().map(rd::own)))?;
            match e {
                Some(e) => out.push(e),
                None => break,
            }
            ensure!(out.len() <= model.len() + 1, "c06:overrun", "the merger yields more entries than there are distinct keys");
        }
        drop(it);
        // keys
        for w in out.windows(2) {
            ensure!(w[0].0 < w[1].0, "c06:order", "output keys not strictly ascending: {} then {}", brief(&w[0].0), brief(&w[1].0));
        }
        let got_keys: Vec<&Vec<u8>> = out.iter().map(|e| &e.0).collect();
        let want_keys: Vec<&Vec<u8>> = model.keys().collect();
        if got_keys != want_keys {
            let missing = want_keys.iter().find(|k| !got_keys.contains(k)).map(|k| brief(k));
            let extra = got_keys.iter().find(|k| !want_keys.contains(k)).map(|k| brief(k));
            fail!("c06:union", "output keys are not the union of the sources' keys: got {} want {}; missing {:?} unexpected {:?}", got_keys.len(), want_keys.len(), missing, extra);
        }
        // calls
        let log = log.borrow();
        let mut calls: BTreeMap<&Vec<u8>, Vec<&Vec<Vec<u8>>>> = BTreeMap::new();
        for (k, vals) in log.iter() {
            ensure!(model.contains_key(k), "c06:call-foreign-key", "the merge function was called for key {} held by no source", brief(k));
            calls.entry(k).or_default().push(vals);
        }
        for ((k, yielded), (_, holders)) in out.iter().zip(model.iter()) {
            let want_vals: Vec<Vec<u8>> = holders.iter().map(|h| h.1.clone()).collect();
            let c = calls.get(k).map(|v| v.as_slice()).unwrap_or(&[]);
            if holders.len() >= 2 {
                ensure!(c.len() == 1, "c06:call-count", "key {} is held by {} sources but the merge function was called {} times", brief(k), holders.len(), c.len());
                if *c[0] != want_vals {
                    fail!(
                        "c06:call-args",
                        "key {}: merge called with values from sources in the wrong order or number: got tags {:?}, sources hold {:?}",
                        brief(k),
                        c[0].iter().map(|v| brief(v)).collect::<Vec<_>>(),
                        holders.iter().map(|h| (h.0, brief(&h.1))).collect::<Vec<_>>()
                    );
                }
                let want = merge_pure(case.kind, &want_vals);
                ensure!(*yielded == want, "c06:value", "key {}: yielded {} but the merge of the sources' values is {}", brief(k), brief(yielded), brief(&want));
            } else {
                ensure!(c.len() <= 1, "c06:call-count", "key {} is held by one source but the merge function was called {} times", brief(k), c.len());
                if let Some(args) = c.first() {
                    ensure!(**args == want_vals, "c06:call-args", "key {} (one source): merge called with other values", brief(k));
                }
                ensure!(*yielded == want_vals[0], "c06:value", "key {} (one source): yielded {} but the source holds {}", brief(k), brief(yielded), brief(&want_vals[0]));
            }
        }
        drop(log);
        // (2) write_into_stream_writer + read back
        let merger = build_merger(&files, MF::plain(case.kind), case.add_style.wrapping_add(1))?;
        let mut w = case.out_conf.builder().memory();
        merge_err("write_into_stream_writer", catch(|| merger.write_into_stream_writer(&mut w)))?;
        let bytes = match catch(|| w.into_inner()) {
            Ok(Ok(b)) => b,
            Ok(Err(e)) => fail!("c06:err:into_inner", "into_inner failed: {e}"),
            Err(p) => fail!(format!("c06:{}", panic_sig(&p)), "into_inner panicked: {p}"),
        };
        let reader = rd::open(&bytes)?;
        ensure!(reader.len() == model.len() as u64, "c06:written-len", "merged file reports len {} for {} distinct keys", reader.len(), model.len());
        let mut c = rd::guard("into_cursor", || reader.into_cursor())?;
        let back = rd::scan_fwd(&mut c, model.len() + 1)?;
        if let Some(d) = rd::first_diff(&back, &out) {
            fail!("c06:written-content", "file produced by write_into_stream_writer differs from the streamed content: {}", d);
        }

        // classification
        let k = srcs.len();
        obs.class(format!("merge:k={}", k.min(4)));
        if srcs.iter().any(|e| e.is_empty()) {
            obs.class("merge:empty-source");
        }
        let shared = model.values().any(|h| h.len() >= 2);
        let multi_block = files.iter().any(|f| fmtdec::decode(f, &fmtdec::Opts::lax()).map_or(false, |d| d.n_data_blocks() >= 2));
        if shared {
            obs.class("merge:shared-key");
        }
        obs.class(format!("merge:{:?}", case.kind));
        obs.nontrivial = shared && multi_block;
        if obs.nontrivial {
            obs.class("merge:nontrivial");
        }
        obs.add("merge_calls_checked", model.len() as u64);
        obs.sample = Some(json!({"sources": k, "source_sizes": srcs.iter().map(|e| e.len()).collect::<Vec<_>>(), "distinct_keys": model.len(),
            "kind": format!("{:?}", case.kind), "keys_in_several_sources": model.values().filter(|h| h.len() >= 2).count()}));
        Ok(())
    }
}
