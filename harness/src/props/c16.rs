//! C16 — I/O per cursor operation is bounded by index depth, not by file size.

use std::collections::BTreeMap;
use std::rc::Rc;

use proptest::prelude::*;
use serde::{Deserialize, Serialize};
use serde_json::json;

use crate::common::{write_file, Check, EntrySrc, Fail, FileSpec, WConf};
use crate::fmtdec;
use crate::gen::{self, Tier};
use crate::ioinstr::{self, IoEvent, Shared, Source};
use crate::model::Op;
use crate::props::c03::{explore_case, explore_with};
use crate::rd::{self, COp};
use crate::runner::{stage, Obs, Prop, Stage};
use crate::fail;

pub struct C16;

#[derive(Clone, Debug, Hash, Serialize, Deserialize)]
pub enum Case {
    History { spec: FileSpec, ops: Vec<Op> },
    Explore(FileSpec),
}

/// block start -> stored length (without the 8-byte prefix)
pub struct BlockMap {
    pub blocks: BTreeMap<u64, u64>,
    pub levels: usize,
    pub file_len: u64,
    pub trailer: u64,
    pub data_blocks: usize,
}

impl BlockMap {
    pub fn of(bytes: &[u8]) -> Result<BlockMap, String> {
        let d = fmtdec::decode(bytes, &fmtdec::Opts::lax())?;
        Ok(BlockMap {
            blocks: d.blocks.iter().map(|b| (b.offset, b.stored_len)).collect(),
            levels: d.trailer.levels as usize,
            file_len: bytes.len() as u64,
            trailer: d.trailer.size as u64,
            data_blocks: d.n_data_blocks(),
        })
    }

    /// index of the block containing byte `pos`, if any
    fn block_of(&self, pos: u64) -> Option<u64> {
        self.blocks.range(..=pos).next_back().filter(|(start, len)| pos < **start + 8 + **len).map(|(s, _)| *s)
    }

    /// Judges the I/O log of one public cursor operation; returns the number of block loads.
    /// A load is counted every time reading moves to another block (by the byte ranges actually read, against the
    /// independent decoder's block map) or re-enters a block after a seek; bytes outside every block (the trailer)
    /// count as a load of their own. How the implementation positions itself (seek targets) is not judged.
    pub fn judge_op(&self, log: &[IoEvent], what: &dyn Fn() -> String) -> Check<usize> {
        let mut loads = 0usize;
        let mut seeks = 0usize;
        let mut current: Option<Option<u64>> = None; // Some(block) being read; None right after a seek
        for ev in log {
            match ev {
                IoEvent::Seek(_) => {
                    seeks += 1;
                    current = None;
                }
                IoEvent::Read { pos, len } => {
                    if *len == 0 {
                        continue;
                    }
                    // a read may span several blocks (sequential run-on): each one touched is a load
                    let mut p = *pos;
                    let end = pos + *len as u64;
                    while p < end {
                        let blk = self.block_of(p);
                        if current != Some(blk) {
                            loads += 1;
                            current = Some(blk);
                        }
                        p = match blk {
                            Some(start) => (start + 8 + self.blocks[&start]).min(end).max(p + 1),
                            None => end,
                        };
                    }
                }
            }
        }
        let bound = 2 * (self.levels + 2);
        if loads > bound {
            return Err(Fail::new(
                "c16:too-many-loads",
                format!("{}: {} block loads ({} seeks) for one operation, bound 2*(levels+2) = {} ({} data blocks)", what(), loads, seeks, bound, self.data_blocks),
            ));
        }
        Ok(loads)
    }

    pub fn judge_open(&self, log: &[IoEvent]) -> Check {
        for ev in log {
            if let IoEvent::Read { pos, len } = ev {
                if *pos < self.file_len - self.trailer || pos + *len as u64 > self.file_len {
                    return Err(Fail::new("c16:open-reads-body", format!("opening the file read {} bytes at {} — outside the {}-byte trailer of a {}-byte file", len, pos, self.trailer, self.file_len)));
                }
            }
        }
        Ok(())
    }
}

fn take_log(ctl: &Shared) -> Vec<IoEvent> {
    std::mem::take(&mut ctl.borrow_mut().log)
}

fn big_file(tier: Tier) -> BoxedStrategy<FileSpec> {
    let max = tier.pick(20_000u32, 60_000);
    let narrow = (any::<u32>(), 1u32..50, prop_oneof![2 => 50u32..3000, 2 => 3000u32..=max], prop_oneof![Just(0u16), 0u16..30], any::<u8>(), prop_oneof![Just(4u16), 0u16..40], 0u8..4)
        .prop_map(|(start, stride, n, pad, fill, vlen, vkind)| EntrySrc::Counter { start: start / 2, stride, n, pad, fill, vlen, vkind });
    // ~100-byte entries: ten per 1 KiB block, so thousands of data blocks
    let wide = (any::<u32>(), 1u32..50, (max / 2)..=max, 20u16..60, any::<u8>(), 30u16..80, 0u8..3)
        .prop_map(|(start, stride, n, pad, fill, vlen, vkind)| EntrySrc::Counter { start: start / 2, stride, n, pad, fill, vlen, vkind });
    let src = prop_oneof![3 => narrow, 1 => wide];
    let conf = (gen::codec(), 0u8..=6, gen::interval(), prop_oneof![3 => Just(Some(1024usize)), 1 => Just(None), 1 => Just(Some(2000))])
        .prop_map(|(codec, levels, interval, block_size)| WConf { codec, level: 1, block_size, interval, levels });
    (conf, src).prop_map(|(conf, src)| FileSpec { conf, src }).boxed()
}

fn huge_file(tier: Tier) -> BoxedStrategy<FileSpec> {
    let (lo, hi) = tier.pick((60_000u32, 120_000u32), (200_000u32, 500_000u32));
    let src = (any::<u32>(), 1u32..8, lo..=hi, 0u16..24, any::<u8>(), 4u16..40, 0u8..3)
        .prop_map(|(start, stride, n, pad, fill, vlen, vkind)| EntrySrc::Counter { start: start / 4, stride, n, pad, fill, vlen, vkind });
    let conf = (prop_oneof![3 => Just(crate::common::Codec::None), 1 => Just(crate::common::Codec::Snappy), 1 => Just(crate::common::Codec::Lz4)], 0u8..=4, prop_oneof![Just(Some(1024usize)), Just(None)])
        .prop_map(|(codec, levels, block_size)| WConf { codec, level: 0, block_size, interval: None, levels });
    (conf, src).prop_map(|(conf, src)| FileSpec { conf, src }).boxed()
}

impl Prop for C16 {
    type Case = Case;

    fn id(&self) -> &'static str {
        "C16"
    }

    fn stages(&self, tier: Tier) -> Vec<Stage<Case>> {
        vec![
            stage("big-files", (big_file(tier), gen::history(200)).prop_map(|(spec, ops)| Case::History { spec, ops }), tier.pick(800, 12_000)).shrink(100),
            stage("general-files", (gen::file_spec_light(tier), gen::history(120)).prop_map(|(spec, ops)| Case::History { spec, ops }), tier.pick(1600, 20_000)).shrink(200),
            stage("explore", explore_case(tier.pick(12, 20)).prop_map(Case::Explore), tier.pick(48, 1000)).shrink(30),
            // a few very large files: the bound must not depend on the number of entries
            stage("huge-files", (huge_file(tier), gen::history(60)).prop_map(|(spec, ops)| Case::History { spec, ops }), tier.pick(16, 64)).shrink(10),
        ]
    }

    fn rule(&self) -> String {
        "case = file (up to 60 000 entries / ~2 000 data blocks of 1 KiB, levels 0..=6, all codecs; a few files of 60 000..500 000 entries) x 200-operation history, \
         or small deep file x every reachable cursor state x every operation (BFS as in C03). The reader runs over an \
         instrumented source logging every seek target and read range per public call. Oracle: Reader::new reads only \
         inside the trailer; every cursor operation performs <= 2*(levels+2) block loads, a load being counted whenever the \
         bytes actually read move into another block of the independent decoder's block map (or re-enter one after a \
         seek); how the implementation positions itself is not judged. non-trivial = operation on a file with \
         >=50 data blocks whose load count >= levels+2; distinct = hash(file, operation index)"
            .into()
    }

    fn health(&self, tier: Tier) -> Vec<(&'static str, u64)> {
        vec![("io:files>=50-blocks", tier.pick(150, 4000)), ("io:files>=1000-blocks", tier.pick(10, 300))]
    }

    fn fuzz_targets(&self) -> Vec<(&'static str, u64)> {
        vec![("fuzz_cursor", 40_000)]
    }

    fn run(&self, case: &Case, obs: &mut Obs) -> Check {
        match case {
            Case::History { spec, ops } => {
                let entries = spec.src.entries();
                let bytes = write_file(&spec.conf, &entries)?;
                let map = match BlockMap::of(&bytes) {
                    Ok(m) => m,
                    Err(e) => fail!("c16:undecodable", "cannot build the block map: {e}"),
                };
                let ctl = ioinstr::ctl();
                ctl.borrow_mut().log_enabled = true;
                let src = Source::new(Rc::new(bytes), ctl.clone());
                let reader = rd::guard("Reader::new", || grenad::Reader::new(src))?;
                map.judge_open(&take_log(&ctl))?;
                let mut c = rd::guard("into_cursor", || reader.into_cursor())?;
                if !take_log(&ctl).is_empty() {
                    fail!("c16:open-reads-body", "into_cursor performed I/O");
                }
                let fh = crate::common::hash_of(spec);
                let mut max_loads = 0usize;
                for (i, op) in ops.iter().enumerate() {
                    let cop = match op {
                        Op::First => COp::First,
                        Op::Last => COp::Last,
                        Op::Next => COp::Next,
                        Op::Prev => COp::Prev,
                        Op::Ge(p) => COp::Ge(p.bytes(&entries)),
                        Op::Le(p) => COp::Le(p.bytes(&entries)),
                        Op::Eq(p) => COp::Eq(p.bytes(&entries)),
                        Op::Reset => COp::Reset,
                        Op::Current => continue,
                        Op::CloneSwitch => {
                            let cl = c.clone();
                            c = cl;
                            continue;
                        }
                        Op::Swap => continue,
                    };
                    rd::apply(&mut c, &cop)?;
                    let log = take_log(&ctl);
                    let loads = map.judge_op(&log, &|| format!("operation #{i} {} on a {}-entry file ({})", cop.show(), entries.len(), spec.conf.label()))?;
                    max_loads = max_loads.max(loads);
                    if map.data_blocks >= 50 && loads >= map.levels + 2 {
                        obs.sub_nontrivial.push(crate::common::hash_of(&(fh, i)));
                    }
                }
                obs.add("operations", ops.len() as u64);
                if map.data_blocks >= 50 {
                    obs.class("io:files>=50-blocks");
                }
                if map.data_blocks >= 1000 {
                    obs.class("io:files>=1000-blocks");
                }
                obs.class(format!("io:levels={}", map.levels.min(7)));
                obs.nontrivial = !obs.sub_nontrivial.is_empty();
                obs.sample = Some(json!({"kind": "history", "conf": spec.conf.label(), "entries": entries.len(), "data_blocks": map.data_blocks,
                    "ops": ops.len(), "max_loads_per_op": max_loads, "bound": 2 * (map.levels + 2)}));
                Ok(())
            }
            Case::Explore(spec) => {
                let entries = spec.src.entries();
                let bytes = write_file(&spec.conf, &entries)?;
                let map = match BlockMap::of(&bytes) {
                    Ok(m) => m,
                    Err(e) => fail!("c16:undecodable", "cannot build the block map: {e}"),
                };
                let ctl = ioinstr::ctl();
                ctl.borrow_mut().log_enabled = true;
                let src = Source::new(Rc::new(bytes), ctl.clone());
                let reader = rd::guard("Reader::new", || grenad::Reader::new(src))?;
                map.judge_open(&take_log(&ctl))?;
                let fresh = rd::guard("into_cursor", || reader.into_cursor())?;
                let mut max_loads = 0usize;
                let r = explore_with(fresh, &entries, 60_000, &mut |_op, hist| {
                    let log = take_log(&ctl);
                    let loads = map.judge_op(&log, &|| format!("history [{}]", hist()))?;
                    max_loads = max_loads.max(loads);
                    Ok(())
                })?;
                obs.add("states", r.states);
                obs.add("transitions", r.transitions);
                obs.class("io:explored");
                obs.nontrivial = map.levels >= 2;
                obs.sample = Some(json!({"kind": "explore", "conf": spec.conf.label(), "entries": entries.len(), "states": r.states,
                    "transitions": r.transitions, "max_loads_per_op": max_loads, "bound": 2 * (map.levels + 2)}));
                Ok(())
            }
        }
    }
}
