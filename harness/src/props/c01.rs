//! C01 — write/read round trip is exact, ordered and complete for every configuration.

use serde_json::json;

use crate::common::{Check, Codec, FileSpec};
use crate::fmtdec;
use crate::gen::{self, Tier};
use crate::rd;
use crate::runner::{stage, Obs, Prop, Stage};
use crate::{ensure, fail};

pub struct C01;

/// Labels describing the physical layout of a generated file (generator health, DESIGN 4.1).
pub fn layout_classes(spec: &FileSpec, bytes: &[u8], n: usize, obs: &mut Obs) -> Option<fmtdec::Decoded> {
    obs.class(format!("codec={}", spec.conf.codec.name()));
    let lv = match spec.conf.levels {
        0 => "0",
        1 => "1",
        2 => "2",
        3..=253 => "3+",
        254 => "254",
        255 => "255",
    };
    obs.class(format!("levels={lv}"));
    obs.class(match n {
        0 => "n=0",
        1 => "n=1",
        2..=9 => "n=2..9",
        10..=99 => "n=10..99",
        _ => "n>=100",
    });
    match fmtdec::decode(bytes, &fmtdec::Opts::lax()) {
        Ok(d) => {
            let nd = d.n_data_blocks();
            obs.class(match nd {
                0 => "datablocks=0",
                1 => "datablocks=1",
                2..=9 => "datablocks=2..9",
                _ => "datablocks>=10",
            });
            if d.multi_block_index_depth().is_some() {
                obs.class("multi-block-index-level");
            }
            Some(d)
        }
        Err(_) => {
            obs.class("undecodable-by-fmtdec");
            None
        }
    }
}

/// opens `bytes` and scans forward; None when it does not even open
fn catch_open_scan(bytes: &[u8], n: usize) -> Option<crate::common::Entries> {
    let mut c = rd::cursor(bytes).ok()?;
    rd::scan_fwd(&mut c, n + 2).ok()
}

impl Prop for C01 {
    type Case = FileSpec;

    fn id(&self) -> &'static str {
        "C01"
    }

    fn stages(&self, tier: Tier) -> Vec<Stage<FileSpec>> {
        vec![stage("files", gen::file_spec(tier), tier.pick(4000, 60_000))]
    }

    fn rule(&self) -> String {
        "cases = (writer configuration, entry set) from the generators of DESIGN 4.1; non-trivial = n>=1 and (>=2 data \
         blocks, or codec != None, or an entry larger than the block size, or index_levels>=2 with >=2 blocks at a \
         non-root level); distinct = hash of (configuration, entry specification)"
            .into()
    }

    fn health(&self, tier: Tier) -> Vec<(&'static str, u64)> {
        let m = tier.pick(1, 30);
        vec![
            ("codec=none", 300 * m),
            ("codec=snappy", 300 * m),
            ("codec=snappy-pre05", 300 * m),
            ("codec=zlib", 300 * m),
            ("codec=lz4", 300 * m),
            ("codec=zstd", 300 * m),
            ("levels=0", 100 * m),
            ("levels=1", 100 * m),
            ("levels=2", 100 * m),
            ("levels=3+", 100 * m),
            ("levels=255", 50 * m),
            ("multi-block-index-level", 50 * m),
        ]
    }

    fn fuzz_targets(&self) -> Vec<(&'static str, u64)> {
        vec![("fuzz_writer", 40_000)]
    }

    fn run(&self, spec: &FileSpec, obs: &mut Obs) -> Check {
        let entries = spec.src.entries();
        let n = entries.len();
        let bytes = crate::common::write_file(&spec.conf, &entries)?;

        // the same entries through `build(&mut Vec)` + `finish()` (the other way to end a writer)
        let mut sink = Vec::new();
        match crate::common::catch(|| -> std::io::Result<()> {
            let mut w = spec.conf.builder().build(&mut sink);
            for (k, v) in &entries {
                w.insert(k, v)?;
            }
            w.finish()
        }) {
            Ok(Ok(())) => {}
            Ok(Err(e)) => fail!("c01:finish:err", "finish() failed on valid input: {e}"),
            Err(p) => fail!("c01:finish:panic", "finish() panicked on valid input: {p}"),
        }
        // judged by content (byte equality of the two paths is C11's business, not C01's)
        {
            let mut c = rd::cursor(&sink)?;
            let fwd = rd::scan_fwd(&mut c, n + 2)?;
            if let Some(d) = rd::first_diff(&fwd, &entries) {
                fail!("c01:finish:forward", "file ended with finish(): forward scan differs from the inserted pairs ({}): {}", spec.conf.label(), d);
            }
            if sink != bytes {
                obs.class("finish-bytes-differ-from-into_inner");
            }
        }

        // a destination that only receives what is flushed: after finish() (and after into_inner()) returned Ok, the
        // destination must hold the complete file - "nothing is lost or truncated"
        for use_finish in [true, false] {
            let (sink, committed) = crate::ioinstr::StagingSink::new();
            let r = crate::common::catch(|| -> std::io::Result<()> {
                let mut w = spec.conf.builder().build(sink);
                for (k, v) in &entries {
                    w.insert(k, v)?;
                }
                if use_finish {
                    w.finish()
                } else {
                    w.into_inner().map(drop)
                }
            });
            let how = if use_finish { "finish()" } else { "into_inner()" };
            match r {
                Ok(Ok(())) => {}
                Ok(Err(e)) => fail!("c01:staging:err", "{how} failed on a buffering sink: {e}"),
                Err(p) => fail!("c01:staging:panic", "{how} panicked on a buffering sink: {p}"),
            }
            let got = committed.borrow().clone();
            let ok = match catch_open_scan(&got, n) {
                Some(fwd) => fwd == entries,
                None => false,
            };
            if !ok {
                fail!(
                    "c01:staging:incomplete",
                    "after {how} returned Ok, a destination that receives bytes only on flush holds {} of the file's {} bytes and does not read back as the inserted entries ({})",
                    got.len(), bytes.len(), spec.conf.label()
                );
            }
        }

        let reader = rd::open(&bytes)?;
        ensure!(reader.len() == n as u64, "c01:len", "len() = {} after {} inserts ({})", reader.len(), n, spec.conf.label());
        ensure!(reader.is_empty() == (n == 0), "c01:is_empty", "is_empty() inconsistent with {} inserts", n);
        ensure!(
            Codec::of_g5(reader.compression_type()) == spec.conf.codec,
            "c01:codec",
            "compression_type() = {:?}, configured {:?}",
            reader.compression_type(),
            spec.conf.codec
        );
        ensure!(
            reader.file_version() == grenad::FileVersion::FormatV2,
            "c01:version",
            "file_version() = {:?}",
            reader.file_version()
        );

        // forward scan on a fresh cursor
        let mut c = rd::guard("into_cursor", || reader.clone().into_cursor())?;
        let fwd = rd::scan_fwd(&mut c, n + 2)?;
        if let Some(d) = rd::first_diff(&fwd, &entries) {
            fail!("c01:forward", "forward scan differs from the inserted pairs ({}): {}", spec.conf.label(), d);
        }
        // backward scan on a fresh cursor
        let mut c = rd::guard("into_cursor", || reader.clone().into_cursor())?;
        let bwd = rd::scan_bwd(&mut c, n + 2)?;
        let mut rev = entries.clone();
        rev.reverse();
        if let Some(d) = rd::first_diff(&bwd, &rev) {
            fail!("c01:backward", "backward scan differs from the reversed inserts ({}): {}", spec.conf.label(), d);
        }
        // first / last
        let mut c = rd::guard("into_cursor", || reader.clone().into_cursor())?;
        let first = rd::guard("move_on_first", || c.move_on_first().map(rd::own))?;
        ensure!(first == entries.first().cloned(), "c01:first", "move_on_first = {} want {}", rd::show(&first), rd::show(&entries.first().cloned()));
        let last = rd::guard("move_on_last", || c.move_on_last().map(rd::own))?;
        ensure!(last == entries.last().cloned(), "c01:last", "move_on_last = {} want {}", rd::show(&last), rd::show(&entries.last().cloned()));

        // classification
        let d = layout_classes(spec, &bytes, n, obs);
        let bs = spec.conf.eff_block();
        let big_entry = entries.iter().any(|(k, v)| k.len() + v.len() > bs);
        if big_entry {
            obs.class("entry>block");
        }
        if entries.first().map_or(false, |e| e.0.is_empty()) {
            obs.class("empty-key");
        }
        if entries.iter().any(|e| e.1.is_empty()) {
            obs.class("empty-value");
        }
        let (nd, multi) = d.as_ref().map_or((0, false), |d| (d.n_data_blocks(), d.multi_block_index_depth().is_some()));
        obs.nontrivial = n >= 1 && (nd >= 2 || spec.conf.codec != Codec::None || big_entry || multi);
        obs.sample = Some(json!({
            "conf": spec.conf.label(), "entries": n, "file_bytes": bytes.len(), "data_blocks": nd,
            "first_key": entries.first().map(|e| crate::common::brief(&e.0)),
            "last_key": entries.last().map(|e| crate::common::brief(&e.0)),
        }));
        Ok(())
    }
}
