//! C10 — version-1 files remain readable with identical results.

use std::ops::Bound;

use proptest::collection::vec;
use proptest::prelude::*;
use serde::{Deserialize, Serialize};
use serde_json::json;

use crate::common::{hash_of, write_file, Check, Codec, Entries, FileSpec};
use crate::fmtdec;
use crate::gen::{self, Tier};
use crate::model::{Model, Probe};
use crate::props::c02::{check_seeks, probe_set};
use crate::props::c04::{check_range, range_strategy, BoundSpec};
use crate::props::c05::{check_prefix, prefix_strategy, PrefixSpec};
use crate::rd;
use crate::runner::{stage, Obs, Prop, Stage};
use crate::{ensure, fail};

pub struct C10;

#[derive(Clone, Debug, Hash, Serialize, Deserialize)]
pub struct Case {
    pub spec: FileSpec,
    pub picks: Vec<u16>,
    pub probes: Vec<Probe>,
    pub ranges: Vec<(BoundSpec, BoundSpec)>,
    pub prefixes: Vec<PrefixSpec>,
    /// a multi-step history on ONE cursor (absolute and relative moves interleaved)
    pub ops: Vec<crate::model::Op>,
    /// when set, the V1 trailer stores this count instead of the real number of entries ("opens with the STORED entry
    /// count"); the content queries must be unaffected
    #[serde(default)]
    pub forged_count: Option<u64>,
}

/// Re-encodes a levels=0 V2 file as a V1 file: same blocks, 21-byte trailer built by the independent encoder
/// from the independently parsed fields.
pub fn to_v1(v2: &[u8]) -> Result<Vec<u8>, String> {
    to_v1_with_count(v2, None)
}

pub fn to_v1_with_count(v2: &[u8], count: Option<u64>) -> Result<Vec<u8>, String> {
    let t = fmtdec::parse_trailer(v2).map_err(|e| e.to_string())?;
    if t.version != 2 || t.levels != 0 {
        return Err("not a single-level V2 file".into());
    }
    let mut out = v2[..v2.len() - 22].to_vec();
    out.extend_from_slice(&fmtdec::encode_v1_trailer(t.root_offset, t.codec_id, count.unwrap_or(t.count)));
    Ok(out)
}

/// Everything a reader can be asked, as one comparable value.
fn query_all<'a>(
    bytes: &'a [u8],
    entries: &Entries,
    case: &Case,
    sigp: &str,
) -> Check<(u64, u8, Entries, Entries)> {
    let reader = rd::open(bytes)?;
    let n = entries.len();
    let mut c = rd::guard("into_cursor", || reader.clone().into_cursor())?;
    let fwd = rd::scan_fwd(&mut c, n + 2)?;
    let mut c = rd::guard("into_cursor", || reader.clone().into_cursor())?;
    let bwd = rd::scan_bwd(&mut c, n + 2)?;
    let m = Model::new(entries);
    let (qs, _) = probe_set(entries, &case.picks, &case.probes);
    let mut long_lived = rd::guard("into_cursor", || reader.clone().into_cursor())?;
    let mut mk = || rd::guard("into_cursor", || reader.clone().into_cursor());
    for q in &qs {
        check_seeks(&mut mk, &mut long_lived, &m, entries, q, &format!("{sigp}:seek"))?;
    }
    for rs in &case.ranges {
        let r: (Bound<Vec<u8>>, Bound<Vec<u8>>) = (rs.0.materialise(entries), rs.1.materialise(entries));
        check_range(&reader, entries, &r, &format!("{sigp}:range"))?;
    }
    for ps in &case.prefixes {
        check_prefix(&reader, entries, &ps.bytes(entries), &format!("{sigp}:prefix"))?;
    }
    // a long history on one cursor, judged by the position machine of C03
    crate::props::c03::run_history(bytes, entries, &case.ops, None).map_err(|f| crate::common::Fail::new(format!("{sigp}:history:{}", f.signature), f.msg))?;
    Ok((reader.len(), reader.compression_type() as u8, fwd, bwd))
}

impl Prop for C10 {
    type Case = Case;

    fn id(&self) -> &'static str {
        "C10"
    }

    fn stages(&self, tier: Tier) -> Vec<Stage<Case>> {
        let conf = gen::wconf_with(Just(0u8).boxed());
        let forged = prop_oneof![
            3 => Just(None),
            1 => any::<u64>().prop_map(Some),
            1 => prop::sample::select(vec![0u64, 1, 255, 256, u32::MAX as u64, 1 << 32, 1 << 56, u64::MAX - 1, u64::MAX]).prop_map(Some),
        ];
        let s = (conf, gen::entry_src(tier), vec(any::<u16>(), 60), vec(gen::probe(), 20), vec(range_strategy(), 10), vec(prefix_strategy(), 10), gen::history(120), forged)
            .prop_map(|(conf, src, picks, probes, ranges, prefixes, ops, forged_count)| Case { spec: FileSpec { conf, src }, picks, probes, ranges, prefixes, ops, forged_count });
        vec![stage("files", s, tier.pick(2000, 20_000)).shrink(600)]
    }

    fn rule(&self) -> String {
        "case = single-level file from the current writer (all codecs, block sizes, intervals) re-encoded with a V1 trailer by \
         an independent encoder; oracle: opens as V1 with the stored count and codec; forward/backward scan, the seek \
         alphabet (complete for <=150 entries), 10 ranges, 10 prefixes and a 120-operation history on one cursor each equal the model and equal the result on the \
         V2 original. non-trivial = n>=2, >=2 data blocks and codec id != 0; distinct = hash(case)"
            .into()
    }

    fn health(&self, tier: Tier) -> Vec<(&'static str, u64)> {
        vec![("v1:nontrivial", tier.pick(150, 4000))]
    }

    fn run(&self, case: &Case, obs: &mut Obs) -> Check {
        let entries = case.spec.src.entries();
        let n = entries.len();
        let v2 = write_file(&case.spec.conf, &entries)?;
        let v1 = match to_v1_with_count(&v2, case.forged_count) {
            Ok(b) => b,
            Err(e) => fail!("c10:convert", "cannot convert: {e}"),
        };
        let reader = rd::open(&v1)?;
        ensure!(reader.file_version() == grenad::FileVersion::FormatV1, "c10:version", "file_version() = {:?} on a V1 trailer", reader.file_version());
        let stored = case.forged_count.unwrap_or(n as u64);
        if case.forged_count.is_some() {
            obs.class("v1:forged-count");
        }
        ensure!(reader.len() == stored, "c10:len", "len() = {} but the V1 trailer stores {}", reader.len(), stored);
        ensure!(
            Codec::of_g5(reader.compression_type()) == case.spec.conf.codec,
            "c10:codec",
            "compression_type() = {:?} but the V1 trailer stores {:?}",
            reader.compression_type(),
            case.spec.conf.codec
        );
        let r1 = query_all(&v1, &entries, case, "c10:v1")?;
        let r2 = query_all(&v2, &entries, case, "c10:v2")?;
        if let Some(d) = rd::first_diff(&r1.2, &entries) {
            fail!("c10:v1:forward", "forward scan of the V1 file differs from the content: {}", d);
        }
        let mut rev = entries.clone();
        rev.reverse();
        if let Some(d) = rd::first_diff(&r1.3, &rev) {
            fail!("c10:v1:backward", "backward scan of the V1 file differs from the content: {}", d);
        }
        ensure!(
            (r1.1, &r1.2, &r1.3) == (r2.1, &r2.2, &r2.3) && (case.forged_count.is_some() || r1.0 == r2.0),
            "c10:v1-vs-v2",
            "V1 and V2 encodings of the same content answer differently (len/codec/scan)"
        );
        // the same through a plain user-written `Read + Seek` source (no specialised read_vectored/read_exact), whole
        // and in short pieces
        for tape in [&[][..], &[0u8, 3, 0xE0, 200][..]] {
            let ctl = crate::ioinstr::ctl_with_tape(tape);
            let src = crate::ioinstr::Source::new(std::rc::Rc::new(v1.clone()), ctl);
            let rs = rd::guard("Reader::new", || grenad::Reader::new(src))?;
            ensure!(rs.file_version() == grenad::FileVersion::FormatV1, "c10:source:version", "file_version() = {:?} through a plain Read+Seek source", rs.file_version());
            ensure!(rs.len() == stored, "c10:source:len", "len() = {} through a plain Read+Seek source, the V1 trailer stores {}", rs.len(), stored);
            ensure!(
                Codec::of_g5(rs.compression_type()) == case.spec.conf.codec,
                "c10:source:codec",
                "compression_type() = {:?} through a plain Read+Seek source, the V1 trailer stores {:?}",
                rs.compression_type(),
                case.spec.conf.codec
            );
            let mut c = rd::guard("into_cursor", || rs.into_cursor())?;
            let fwd = rd::scan_fwd(&mut c, n + 2)?;
            if let Some(d) = rd::first_diff(&fwd, &entries) {
                fail!("c10:source:forward", "forward scan of the V1 file through a plain Read+Seek source: {}", d);
            }
        }

        let nd = fmtdec::decode(&v2, &fmtdec::Opts::lax()).map(|d| d.n_data_blocks()).unwrap_or(0);
        obs.class(format!("codec={}", case.spec.conf.codec.name()));
        let nt = n >= 2 && nd >= 2 && case.spec.conf.codec != Codec::None;
        if nt {
            obs.class("v1:nontrivial");
        }
        obs.add("queries", 2 * (2 + case.ranges.len() as u64 * 2 + case.prefixes.len() as u64 * 2));
        obs.nontrivial = nt;
        let _ = hash_of(&0u8);
        obs.sample = Some(json!({"conf": case.spec.conf.label(), "entries": n, "data_blocks": nd, "v1_bytes": v1.len()}));
        Ok(())
    }
}
