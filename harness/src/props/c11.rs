//! C11 — results and emitted bytes do not depend on how I/O calls are split or interrupted.

use std::io::{Cursor, Read, Seek};
use std::ops::Bound;
use std::rc::Rc;

use proptest::collection::vec;
use proptest::prelude::*;
use serde::{Deserialize, Serialize};
use serde_json::json;

use crate::common::{catch, hexv, panic_sig, write_file, Check, Codec, Entries, Fail, FileSpec};
use crate::gen::{self, Tier};
use crate::ioinstr::{self, Creator, Shared, Sink, Source, INTERRUPT_FROM};
use crate::model::{Op, Probe};
use crate::props::c04::{range_strategy, BoundSpec};
use crate::props::c05::{prefix_strategy, PrefixSpec};
use crate::props::c06;
use crate::props::c07::{self, drain, feed, Exit, InsertSrc};
use crate::rd::{self, COp};
use crate::runner::{stage, Obs, Prop, Stage};
use crate::sm::{self, output_ok, CreatorKind, MergeKind, SConf, MF};
use crate::{ensure, fail};

pub struct C11;

#[derive(Clone, Debug, Hash, Serialize, Deserialize)]
pub enum Case {
    Writer {
        spec: FileSpec,
        #[serde(with = "hexv")]
        tape: Vec<u8>,
    },
    Reader {
        spec: FileSpec,
        #[serde(with = "hexv")]
        tape: Vec<u8>,
        probes: Vec<Probe>,
        ranges: Vec<(BoundSpec, BoundSpec)>,
        prefixes: Vec<PrefixSpec>,
        ops: Vec<Op>,
        /// read the version-1 encoding of the file (single-level index)
        #[serde(default)]
        v1: bool,
    },
    Merger {
        case: c06::Case,
        #[serde(with = "hexv")]
        tape: Vec<u8>,
    },
    Sorter {
        conf: SConf,
        kind: MergeKind,
        src: InsertSrc,
        #[serde(with = "hexv")]
        tape: Vec<u8>,
        exit: u8,
    },
}

pub fn tape() -> BoxedStrategy<Vec<u8>> {
    prop_oneof![
        1 => Just(vec![0u8]),
        1 => Just(vec![INTERRUPT_FROM - 1]),
        3 => vec(prop_oneof![3 => INTERRUPT_FROM..=255u8, 2 => any::<u8>()], 1..64),
        3 => vec(any::<u8>(), 1..64),
        1 => vec(prop_oneof![Just(0u8), Just(1u8), Just(INTERRUPT_FROM)], 1..16),
        // long runs of consecutive interruptions (a decoder that gives up after N retries needs N in a row)
        // (the progressing entries after the run move at least half of what is offered: 47 interruptions per BYTE
        // would turn a 300 kB value into tens of millions of calls)
        3 => (1usize..48, vec(0x70u8..INTERRUPT_FROM, 1..6)).prop_map(|(k, tail)| {
            let mut t = vec![0xFFu8; k];
            t.extend(tail);
            t
        }),
    ]
    .boxed()
}

/// Everything a reader returns for a fixed list of queries.
pub fn reader_transcript<R: Read + Seek + Clone>(
    src: R,
    entries: &Entries,
    probes: &[Probe],
    ranges: &[(BoundSpec, BoundSpec)],
    prefixes: &[PrefixSpec],
    ops: &[Op],
) -> Check<Vec<Option<(Vec<u8>, Vec<u8>)>>> {
    let mut t = Vec::new();
    let reader = rd::guard("Reader::new", || grenad::Reader::new(src))?;
    t.push(Some((reader.len().to_le_bytes().to_vec(), vec![reader.compression_type() as u8])));
    let n = entries.len();
    let mut c = rd::guard("into_cursor", || reader.clone().into_cursor())?;
    for e in rd::scan_fwd(&mut c, n + 1)? {
        t.push(Some(e));
    }
    t.push(None);
    let mut c = rd::guard("into_cursor", || reader.clone().into_cursor())?;
    for e in rd::scan_bwd(&mut c, n + 1)? {
        t.push(Some(e));
    }
    t.push(None);
    for p in probes {
        let q = p.bytes(entries);
        for op in [COp::Ge(q.clone()), COp::Le(q.clone()), COp::Eq(q.clone())] {
            t.push(rd::apply(&mut c, &op)?);
        }
    }
    for op in ops {
        let cop = match op {
            Op::First => COp::First,
            Op::Last => COp::Last,
            Op::Next => COp::Next,
            Op::Prev => COp::Prev,
            Op::Ge(p) => COp::Ge(p.bytes(entries)),
            Op::Le(p) => COp::Le(p.bytes(entries)),
            Op::Eq(p) => COp::Eq(p.bytes(entries)),
            Op::Reset => COp::Reset,
            Op::Current => {
                t.push(rd::own(c.current()));
                continue;
            }
            Op::CloneSwitch => {
                let cl = c.clone();
                c = cl;
                continue;
            }
            Op::Swap => continue,
        };
        t.push(rd::apply(&mut c, &cop)?);
    }
    for (a, b) in ranges {
        let r: (Bound<Vec<u8>>, Bound<Vec<u8>>) = (a.materialise(entries), b.materialise(entries));
        let mut it = rd::guard("into_range_iter", || reader.clone().into_range_iter(r.clone()))?;
        let mut k = 0;
        while let Some(e) = rd::guard("RangeIter::next", || it.next().map(rd::own))? {
            t.push(Some(e));
            k += 1;
            if k > n {
                break;
            }
        }
        t.push(None);
        let mut it = rd::guard("into_rev_range_iter", || reader.clone().into_rev_range_iter(r.clone()))?;
        let mut k = 0;
        while let Some(e) = rd::guard("RevRangeIter::next", || it.next().map(rd::own))? {
            t.push(Some(e));
            k += 1;
            if k > n {
                break;
            }
        }
        t.push(None);
    }
    for p in prefixes {
        let p = p.bytes(entries);
        let mut it = rd::guard("into_prefix_iter", || reader.clone().into_prefix_iter(p.clone()))?;
        let mut k = 0;
        while let Some(e) = rd::guard("PrefixIter::next", || it.next().map(rd::own))? {
            t.push(Some(e));
            k += 1;
            if k > n {
                break;
            }
        }
        t.push(None);
        let mut it = rd::guard("into_rev_prefix_iter", || reader.clone().into_rev_prefix_iter(p.clone()))?;
        let mut k = 0;
        while let Some(e) = rd::guard("RevPrefixIter::next", || it.next().map(rd::own))? {
            t.push(Some(e));
            k += 1;
            if k > n {
                break;
            }
        }
        t.push(None);
    }
    Ok(t)
}

fn write_into_sink(spec: &FileSpec, entries: &Entries, ctl: &Shared) -> Check<Vec<u8>> {
    let sink = Sink::new(ctl.clone());
    let out = sink.clone();
    let r = catch(|| -> std::io::Result<()> {
        let mut w = spec.conf.builder().build(sink);
        for (k, v) in entries {
            w.insert(k, v)?;
        }
        w.finish()
    });
    match r {
        Ok(Ok(())) => Ok(out.bytes()),
        Ok(Err(e)) => Err(Fail::new(
            format!("c11:writer:err:{:?}", e.kind()),
            format!("the writer failed ({e}) on a sink that only splits and interrupts writes ({})", spec.conf.label()),
        )),
        Err(p) => Err(Fail::new(format!("c11:writer:{}", panic_sig(&p)), format!("the writer panicked on a splitting sink: {p}"))),
    }
}

fn retag(f: Fail, codec: Codec, what: &str) -> Fail {
    Fail::new(format!("c11:{what}:{}:{}", codec.name(), f.signature), format!("with split/interrupted I/O ({what}, codec {}): {}", codec.name(), f.msg))
}

fn merger_out<R: Read + Seek>(cursors: Vec<grenad::ReaderCursor<R>>, kind: MergeKind, limit: usize) -> Check<Entries> {
    let mut b = grenad::Merger::builder(MF::plain(kind));
    b.extend(cursors);
    let m = b.build();
    let mut it = match catch(|| m.into_stream_merger_iter()) {
        Ok(Ok(it)) => it,
        Ok(Err(e)) => fail!("merger:err:into_stream_merger_iter", "into_stream_merger_iter failed: {:?}", e),
        Err(p) => fail!(format!("merger:{}", panic_sig(&p)), "into_stream_merger_iter panicked: {p}"),
    };
    let mut out = Vec::new();
    loop {
        match c07::serr("MergerIter::next", catch(|| it.next().map(rd::own)))? {
            Some(e) => out.push(e),
            None => break,
        }
        ensure!(out.len() <= limit, "merger:overrun", "merger yields too many entries");
    }
    Ok(out)
}

impl Prop for C11 {
    type Case = Case;

    fn id(&self) -> &'static str {
        "C11"
    }

    fn stages(&self, tier: Tier) -> Vec<Stage<Case>> {
        let writer = (gen::file_spec(tier), tape()).prop_map(|(spec, tape)| Case::Writer { spec, tape });
        let reader = (gen::file_spec_light(Tier::Quick), tape(), vec(gen::probe(), 0..10), vec(range_strategy(), 0..4), vec(prefix_strategy(), 0..4), gen::history(40), prop_oneof![4 => Just(false), 1 => Just(true)])
            .prop_map(|(mut spec, tape, probes, ranges, prefixes, ops, v1)| {
                if v1 {
                    spec.conf.levels = 0;
                }
                Case::Reader { spec, tape, probes, ranges, prefixes, ops, v1 }
            });
        let universe = prop_oneof![
            gen::list_src(gen::key_ascii(), Just(crate::common::Blob::Lit(vec![])).boxed(), 120),
            gen::list_src(gen::key_half_block(), Just(crate::common::Blob::Lit(vec![])).boxed(), 24),
        ];
        let source = (1u8..4, vec(any::<u8>(), 1..20), gen::wconf_light()).prop_map(|(density, mask, conf)| c06::SourceSpec { density, mask, conf });
        let merger = (universe, vec(source, 1..=5), prop::sample::select(&MergeKind::ALL[..]), tape()).prop_map(|(universe, sources, kind, tape)| Case::Merger {
            case: c06::Case { universe, sources, kind, add_style: 2, out_conf: crate::common::WConf::plain() },
            tape,
        });
        let sorter = (sm::sconf_small(), prop::sample::select(&MergeKind::ALL[..]), c07::insert_src(Tier::Quick), tape(), 0u8..3).prop_map(|(mut conf, kind, src, tape, exit)| {
            conf.creator = CreatorKind::Instrumented;
            conf.parallel = false;
            Case::Sorter { conf, kind, src, tape, exit }
        });
        // blocks whose STORED (compressed) size exceeds 1 MiB: one incompressible value of 1.1..1.7 MB
        let huge_spec = (
            prop::sample::select(vec![crate::common::Codec::Snappy, crate::common::Codec::SnappyPre05, crate::common::Codec::Zlib, crate::common::Codec::Lz4, crate::common::Codec::Zstd, crate::common::Codec::None]),
            0u32..=3,
            prop_oneof![Just(None), Just(Some(1024usize))],
            0u8..=2,
            (1_100_000u32..1_700_000, any::<u64>()),
            vec((gen::key_ascii(), gen::val_small()), 0..4),
        )
            .prop_map(|(codec, level, block_size, levels, (n, seed), mut rest)| {
                rest.push((crate::common::Blob::Lit(b"huge".to_vec()), crate::common::Blob::Rand { n, seed }));
                FileSpec { conf: crate::common::WConf { codec, level, block_size, interval: None, levels }, src: crate::common::EntrySrc::List(rest) }
            });
        let huge_reader = (huge_spec.clone(), tape(), vec(gen::probe(), 0..3), gen::history(10))
            .prop_map(|(spec, tape, probes, ops)| Case::Reader { spec, tape, probes, ranges: vec![], prefixes: vec![], ops, v1: false });
        let huge_writer = (huge_spec, tape()).prop_map(|(spec, tape)| Case::Writer { spec, tape });
        let n = tier.pick(600, 18_000);
        vec![
            stage("huge-block-reader", huge_reader, tier.pick(48, 800)).shrink(10),
            stage("huge-block-writer", huge_writer, tier.pick(32, 400)).shrink(10),
            stage("writer", writer, n).shrink(400),
            stage("reader", reader, n).shrink(400),
            stage("merger", merger, n * 2 / 3).shrink(300),
            stage("sorter", sorter, n * 2 / 3).shrink(300),
        ]
    }

    fn rule(&self) -> String {
        "case = scenario x schedule tape (1..64 generated bytes consumed cyclically, one per read/write call: how many of the \
         offered bytes to transfer in 1..=len, or 'return ErrorKind::Interrupted'). Scenarios: writer into an instrumented \
         sink (emitted bytes must equal those of two plain Vec runs); reader (scans, seeks, cursor history, ranges, prefixes) \
         over an instrumented source (every returned value must equal the same call over a plain Cursor); merger over \
         instrumented sources; sorter whose chunk storage splits/interrupts both writes and reads. non-trivial = the tape \
         produced >=1 partial transfer and >=1 interruption inside a block body (request > 8 bytes) and the codec is not None; \
         distinct = hash(case)"
            .into()
    }

    fn assumptions(&self) -> Vec<String> {
        vec!["Interrupted is injected only on read and write, the calls for which std defines retry semantics; a short read/write always transfers >= 1 byte".into()]
    }

    fn health(&self, tier: Tier) -> Vec<(&'static str, u64)> {
        let m = tier.pick(1, 30);
        vec![("io:reader:block>1MiB", 30 * m.min(10)), ("io:writer:nontrivial", 100 * m), ("io:reader:nontrivial", 100 * m), ("io:merger:nontrivial", 60 * m), ("io:sorter:nontrivial", 40 * m), ("io:reader:lz4", 40 * m)]
    }

    fn run(&self, case: &Case, obs: &mut Obs) -> Check {
        let nt = |ctl: &Shared, codec: Codec| {
            let c = ctl.borrow();
            c.big_partial >= 1 && c.big_interrupts >= 1 && codec != Codec::None
        };
        match case {
            Case::Writer { spec, tape } => {
                let entries = spec.src.entries();
                let plain1 = write_file(&spec.conf, &entries)?;
                let plain2 = write_file(&spec.conf, &entries)?;
                ensure!(plain1 == plain2, "c11:writer:nondeterministic", "two plain runs of the writer produced different bytes ({})", spec.conf.label());
                let ctl = ioinstr::ctl_with_tape(tape);
                let split = write_into_sink(spec, &entries, &ctl)?;
                if split != plain1 {
                    let i = split.iter().zip(plain1.iter()).position(|(a, b)| a != b).unwrap_or(split.len().min(plain1.len()));
                    fail!(
                        "c11:writer:bytes-differ",
                        "bytes handed to a splitting/interrupting sink differ from a plain run: lengths {} vs {}, first difference at {} ({})",
                        split.len(), plain1.len(), i, spec.conf.label()
                    );
                }
                obs.class("io:writer");
                obs.nontrivial = nt(&ctl, spec.conf.codec);
                if obs.nontrivial {
                    obs.class("io:writer:nontrivial");
                }
                obs.add("partial_transfers", ctl.borrow().partial);
                obs.add("interruptions", ctl.borrow().interrupts);
                obs.sample = Some(json!({"scenario": "writer", "conf": spec.conf.label(), "entries": entries.len(), "tape": hexv::to_hex(tape),
                    "partial": ctl.borrow().partial, "interrupted": ctl.borrow().interrupts}));
                Ok(())
            }
            Case::Reader { spec, tape, probes, ranges, prefixes, ops, v1 } => {
                let entries = spec.src.entries();
                let mut bytes = write_file(&spec.conf, &entries)?;
                if *v1 && spec.conf.levels == 0 {
                    bytes = crate::props::c10::to_v1(&bytes).map_err(|e| Fail::new("c11:harness", e))?;
                    obs.class("io:reader:v1");
                }
                let plain = reader_transcript(Cursor::new(bytes.as_slice()), &entries, probes, ranges, prefixes, ops)?;
                let ctl = ioinstr::ctl_with_tape(tape);
                let src = Source::new(Rc::new(bytes.clone()), ctl.clone());
                let split = reader_transcript(src, &entries, probes, ranges, prefixes, ops).map_err(|f| retag(f, spec.conf.codec, "reader"))?;
                if split != plain {
                    let i = split.iter().zip(plain.iter()).position(|(a, b)| a != b).unwrap_or(split.len().min(plain.len()));
                    fail!(
                        format!("c11:reader:{}:results-differ", spec.conf.codec.name()),
                        "result #{i} differs between a plain Cursor and a splitting/interrupting source: {} vs {} ({})",
                        rd::show(&split.get(i).cloned().flatten()), rd::show(&plain.get(i).cloned().flatten()), spec.conf.label()
                    );
                }
                obs.class("io:reader");
                if bytes.len() > 1 << 20 {
                    obs.class("io:reader:block>1MiB");
                }
                obs.nontrivial = nt(&ctl, spec.conf.codec);
                if obs.nontrivial {
                    obs.class("io:reader:nontrivial");
                    obs.class(format!("io:reader:{}", spec.conf.codec.name()));
                }
                obs.add("partial_transfers", ctl.borrow().partial);
                obs.add("interruptions", ctl.borrow().interrupts);
                obs.add("results_compared", plain.len() as u64);
                obs.sample = Some(json!({"scenario": "reader", "conf": spec.conf.label(), "entries": entries.len(), "tape": hexv::to_hex(tape),
                    "results_compared": plain.len(), "partial": ctl.borrow().partial, "interrupted": ctl.borrow().interrupts}));
                Ok(())
            }
            Case::Merger { case: mc, tape } => {
                let srcs = c06::materialise(mc);
                let mut files = Vec::new();
                for (s, e) in srcs.iter().enumerate() {
                    files.push(write_file(&mc.sources[s].conf, e)?);
                }
                let total: usize = srcs.iter().map(|e| e.len()).sum();
                let mut plain_c = Vec::new();
                for f in &files {
                    plain_c.push(rd::cursor(f)?);
                }
                let plain = merger_out(plain_c, mc.kind, total + 1)?;
                let ctl = ioinstr::ctl_with_tape(tape);
                let mut split_c = Vec::new();
                for f in &files {
                    let s = Source::new(Rc::new(f.clone()), ctl.clone());
                    let r = rd::guard("Reader::new", || grenad::Reader::new(s)).map_err(|f| retag(f, Codec::None, "merger"))?;
                    split_c.push(rd::guard("into_cursor", || r.into_cursor())?);
                }
                let codec = mc.sources.iter().map(|s| s.conf.codec).find(|c| *c != Codec::None).unwrap_or(Codec::None);
                let split = merger_out(split_c, mc.kind, total + 1).map_err(|f| retag(f, codec, "merger"))?;
                if let Some(d) = rd::first_diff(&split, &plain) {
                    fail!("c11:merger:results-differ", "merger output differs between plain and splitting/interrupting sources: {}", d);
                }
                obs.class("io:merger");
                obs.nontrivial = nt(&ctl, codec);
                if obs.nontrivial {
                    obs.class("io:merger:nontrivial");
                }
                obs.sample = Some(json!({"scenario": "merger", "sources": files.len(), "merged_entries": plain.len(), "tape": hexv::to_hex(tape)}));
                Ok(())
            }
            Case::Sorter { conf, kind, src, tape, exit } => {
                let inserts = c07::prepared(*kind, false, src);
                let model_in = c07::model_inserts(*kind, false, src);
                let distinct = sm::group(&inserts).len();
                let exit = [Exit::Stream, Exit::Writer, Exit::Cursors][*exit as usize % 3];
                let out_conf = crate::common::WConf::plain();
                let s = feed(conf, MF::plain(*kind), grenad::CursorVec, &inserts)?;
                let plain = drain(s, exit, *kind, &out_conf, distinct + 1)?;
                let ctl = ioinstr::ctl_with_tape(tape);
                let codec = conf.chunk_codec.unwrap_or(Codec::None);
                let s = feed(conf, MF::plain(*kind), Creator { ctl: ctl.clone() }, &inserts).map_err(|f| retag(f, codec, "sorter"))?;
                let split = drain(s, exit, *kind, &out_conf, distinct + 1).map_err(|f| retag(f, codec, "sorter"))?;
                if conf.stable || *kind == MergeKind::SumU32 {
                    if let Some(d) = rd::first_diff(&split.entries, &plain.entries) {
                        fail!("c11:sorter:results-differ", "sorter output differs between plain and splitting/interrupting chunk storage ({}): {}", conf.label(), d);
                    }
                } else if let Err(e) = output_ok(*kind, false, &model_in, &split.entries) {
                    fail!("c11:sorter:results-differ", "sorter output over splitting/interrupting chunk storage is wrong ({}): {}", conf.label(), e);
                }
                obs.class("io:sorter");
                obs.nontrivial = nt(&ctl, codec) && ctl.borrow().created >= 2;
                if obs.nontrivial {
                    obs.class("io:sorter:nontrivial");
                }
                obs.sample = Some(json!({"scenario": "sorter", "conf": conf.label(), "inserts": inserts.len(), "chunks_created": ctl.borrow().created, "tape": hexv::to_hex(tape)}));
                Ok(())
            }
        }
    }
}
