//! C18 — a writer never emits an unsorted block: out-of-order inserts panic.

use proptest::collection::vec;
use proptest::prelude::*;
use serde::{Deserialize, Serialize};
use serde_json::json;

use crate::common::{brief, catch, pick, Check, Codec, Entries, EntrySrc, Fail, WConf};
use crate::fmtdec;
use crate::gen::{self, Tier};
use crate::runner::{stage, Obs, Prop, Stage};
use crate::fail;

pub struct C18;

#[derive(Clone, Debug, Hash, PartialEq, Eq, Serialize, Deserialize)]
pub enum Perturb {
    /// swap entries i and i+1
    Swap(u16),
    /// insert a copy of entry i right after it
    Dup(u16),
    /// right after the c-th block emission of the sorted run, insert a key that is smaller than its predecessor:
    /// `back` positions earlier (1 = duplicate of the predecessor)
    AfterCut(u16, u8),
    /// reverse the `len` entries starting at i
    Reverse(u16, u8),
    /// replace entry i+1's key by entry i's key
    EqualNext(u16),
}

#[derive(Clone, Debug, Hash, Serialize, Deserialize)]
pub struct Case {
    pub conf: WConf,
    pub src: EntrySrc,
    pub perturbs: Vec<Perturb>,
}

/// Indices (into the sorted list) after whose insert the sorted run emitted a block.
fn cut_positions(conf: &WConf, entries: &Entries) -> Vec<usize> {
    let mut cuts = Vec::new();
    let _ = catch(|| {
        let mut w = conf.builder().memory();
        let mut len = 0usize;
        for (i, (k, v)) in entries.iter().enumerate() {
            if w.insert(k, v).is_err() {
                break;
            }
            let l = w.as_ref().len();
            if l != len {
                cuts.push(i);
                len = l;
            }
        }
    });
    cuts
}

pub fn perturbed(conf: &WConf, sorted: &Entries, ps: &[Perturb]) -> (Entries, bool) {
    let mut seq = sorted.clone();
    let mut after_cut = false;
    // AfterCut first: its positions refer to the sorted run
    let cuts = if ps.iter().any(|p| matches!(p, Perturb::AfterCut(..))) { cut_positions(conf, sorted) } else { vec![] };
    let mut inserts: Vec<(usize, (Vec<u8>, Vec<u8>))> = Vec::new();
    for p in ps {
        if let Perturb::AfterCut(c, back) = p {
            if cuts.is_empty() {
                continue;
            }
            let at = cuts[pick(*c, cuts.len())];
            let src = at.saturating_sub((*back as usize).saturating_sub(1));
            inserts.push((at + 1, (sorted[src].0.clone(), b"after-cut".to_vec())));
            after_cut = true;
        }
    }
    inserts.sort_by(|a, b| b.0.cmp(&a.0));
    for (at, e) in inserts {
        seq.insert(at.min(seq.len()), e);
    }
    for p in ps {
        if seq.len() < 2 {
            break;
        }
        match p {
            Perturb::Swap(i) => {
                let i = pick(*i, seq.len() - 1);
                seq.swap(i, i + 1);
            }
            Perturb::Dup(i) => {
                let i = pick(*i, seq.len());
                let e = seq[i].clone();
                seq.insert(i + 1, e);
            }
            Perturb::Reverse(i, len) => {
                let i = pick(*i, seq.len() - 1);
                let j = (i + 2 + *len as usize % 6).min(seq.len());
                seq[i..j].reverse();
            }
            Perturb::EqualNext(i) => {
                let i = pick(*i, seq.len() - 1);
                seq[i + 1].0 = seq[i].0.clone();
            }
            Perturb::AfterCut(..) => {}
        }
    }
    (seq, after_cut)
}

fn perturb() -> BoxedStrategy<Perturb> {
    prop_oneof![
        3 => any::<u16>().prop_map(Perturb::Swap),
        2 => any::<u16>().prop_map(Perturb::Dup),
        4 => (any::<u16>(), 1u8..4).prop_map(|(c, b)| Perturb::AfterCut(c, b)),
        1 => (any::<u16>(), any::<u8>()).prop_map(|(i, l)| Perturb::Reverse(i, l)),
        2 => any::<u16>().prop_map(Perturb::EqualNext),
    ]
    .boxed()
}

impl Prop for C18 {
    type Case = Case;

    fn id(&self) -> &'static str {
        "C18"
    }

    fn stages(&self, tier: Tier) -> Vec<Stage<Case>> {
        let conf = (
            prop_oneof![6 => Just(Codec::None), 1 => Just(Codec::Snappy), 1 => Just(Codec::Zlib)],
            prop_oneof![3 => Just(Some(1024usize)), 1 => Just(None), 1 => Just(Some(2048)), 1 => Just(Some(usize::MAX))],
            gen::interval(),
            0u8..=4,
        )
            .prop_map(|(codec, block_size, interval, levels)| WConf { codec, level: 1, block_size, interval, levels });
        let src = prop_oneof![
            3 => gen::list_src(gen::key_ascii(), gen::val_any(3000), 300),
            2 => gen::list_src(gen::key_tiny(), gen::val_small(), 100),
            2 => gen::deep_small_src(40),
            2 => gen::counter_src(tier.pick(600, 3000)),
        ];
        let s = (conf, src, prop_oneof![1 => Just(vec![]), 6 => vec(perturb(), 1..=3)]).prop_map(|(conf, src, perturbs)| Case { conf, src, perturbs });
        vec![stage("sequences", s, tier.pick(40_000, 400_000)).shrink(800)]
    }

    fn rule(&self) -> String {
        "case = sorted entry list + perturbations (swap neighbours, duplicate, equal keys, reversed run, and a smaller-or-equal \
         key inserted immediately after a block emission, where the block's last-key memory has just been cleared) x block \
         size, interval, levels 0..=4. Oracle: every insert and the finish run under catch_unwind; a panic is legitimate only \
         if the sequence up to that insert is not strictly ascending; without a panic the independent decoder must find \
         strictly ascending keys inside every data and index block. non-trivial = sequence with >=1 out-of-order adjacent \
         pair; distinct = hash(case)"
            .into()
    }

    fn health(&self, tier: Tier) -> Vec<(&'static str, u64)> {
        vec![
            ("seq:unsorted", tier.pick(15_000, 150_000)),
            ("seq:after-cut", tier.pick(300, 10_000)),
            ("seq:unsorted-no-panic", tier.pick(20, 600)),
            ("seq:sorted", tier.pick(200, 6000)),
        ]
    }

    fn fuzz_targets(&self) -> Vec<(&'static str, u64)> {
        vec![("fuzz_writer", 40_000)]
    }

    fn extra(&self, tier: Tier, _seed: u64, ctx: &crate::runner::ExtraCtx) -> crate::runner::ExtraOut {
        small_scope(tier, ctx.threads)
    }

    fn run(&self, case: &Case, obs: &mut Obs) -> Check {
        let sorted = case.src.entries();
        let (seq, after_cut) = perturbed(&case.conf, &sorted, &case.perturbs);
        judge_sequence(&case.conf, &seq, after_cut, &format!("{:?}", case.perturbs), obs)
    }
}

/// Bounded-exhaustive: EVERY insert sequence of length <= L over a five-key alphabet (including the empty key), with
/// small and block-filling values, for three layouts.
pub fn small_scope(tier: Tier, threads: usize) -> crate::runner::ExtraOut {
    use std::sync::atomic::{AtomicU64, Ordering};
    let keys: Vec<Vec<u8>> = vec![vec![], vec![0], vec![0, 0], vec![1], vec![0xff]];
    let max_len = tier.pick(5usize, 7);
    let layouts = [
        (WConf { codec: Codec::None, level: 0, block_size: None, interval: None, levels: 0 }, 2usize),
        (WConf { codec: Codec::None, level: 0, block_size: Some(1024), interval: Some(1), levels: 2 }, 600),
        (WConf { codec: Codec::None, level: 0, block_size: Some(1024), interval: None, levels: 1 }, 1100),
    ];
    let mut total = 0u64;
    for l in 0..=max_len {
        total += (keys.len() as u64).pow(l as u32);
    }
    let next = AtomicU64::new(0);
    let done = AtomicU64::new(0);
    let unsorted = AtomicU64::new(0);
    let failure: std::sync::Mutex<Option<(Fail, serde_json::Value)>> = std::sync::Mutex::new(None);
    std::thread::scope(|s| {
        for _ in 0..threads {
            s.spawn(|| loop {
                let i = next.fetch_add(1, Ordering::Relaxed);
                if i >= total || failure.lock().unwrap().is_some() {
                    break;
                }
                // decode i into (length, digits)
                let mut rem = i;
                let mut len = 0usize;
                loop {
                    let c = (keys.len() as u64).pow(len as u32);
                    if rem < c {
                        break;
                    }
                    rem -= c;
                    len += 1;
                }
                let mut seq: Entries = Vec::with_capacity(len);
                for j in 0..len {
                    let d = (rem % keys.len() as u64) as usize;
                    rem /= keys.len() as u64;
                    seq.push((keys[d].clone(), vec![j as u8]));
                }
                for (conf, vlen) in &layouts {
                    let s2: Entries = seq.iter().map(|(k, v)| (k.clone(), vec![v[0]; *vlen])).collect();
                    let mut obs = Obs::default();
                    let r = crate::common::catch(|| judge_sequence(conf, &s2, false, "small-scope", &mut obs)).unwrap_or_else(|p| Err(Fail::new("c18:harness-panic", p)));
                    if obs.classes.iter().any(|c| c == "seq:unsorted") {
                        unsorted.fetch_add(1, Ordering::Relaxed);
                    }
                    done.fetch_add(1, Ordering::Relaxed);
                    if let Err(f) = r {
                        let mut g = failure.lock().unwrap();
                        if g.is_none() {
                            let ks: Vec<String> = seq.iter().map(|e| brief(&e.0)).collect();
                            *g = Some((
                                Fail::new(format!("{}:small-scope", f.signature), format!("insert sequence [{}] with {}-byte values ({}): {}", ks.join(", "), vlen, conf.label(), f.msg)),
                                serde_json::json!({"SmallScopeSequence": i}),
                            ));
                        }
                        return;
                    }
                }
            });
        }
    });
    let mut out = crate::runner::ExtraOut::default();
    let d = done.into_inner();
    out.evaluations = d;
    out.nontrivial = unsorted.into_inner();
    out.counters.insert("small_scope_sequences".into(), d);
    out.samples.push(serde_json::json!({"kind": "small-scope", "keys": keys.iter().map(|k| brief(k)).collect::<Vec<_>>(), "max_len": max_len, "layouts": layouts.len(), "sequences_x_layouts": d}));
    if let Some(f) = failure.into_inner().unwrap() {
        out.violations.push(f);
    }
    out
}

/// The oracle of C18 on one insert sequence.
pub fn judge_sequence(conf: &WConf, seq: &Entries, after_cut: bool, perturbs: &str, obs: &mut Obs) -> Check {
    {
        let case_conf = conf;
        // first position whose key is not strictly greater than its predecessor
        let first_bad = seq.windows(2).position(|w| w[0].0 >= w[1].0).map(|i| i + 1);
        // drive the writer, every call guarded
        let mut w = Some(case_conf.builder().memory());
        let mut panicked_at: Option<(usize, String)> = None;
        for (j, (k, v)) in seq.iter().enumerate() {
            let wr = w.as_mut().unwrap();
            match catch(|| wr.insert(k, v)) {
                Ok(Ok(())) => {}
                Ok(Err(e)) => fail!("c18:io-error", "insert returned an error on an in-memory sink: {e}"),
                Err(p) => {
                    panicked_at = Some((j, p));
                    break;
                }
            }
        }
        let mut bytes = None;
        if panicked_at.is_none() {
            let wr = w.take().unwrap();
            match catch(|| wr.into_inner()) {
                Ok(Ok(b)) => bytes = Some(b),
                Ok(Err(e)) => fail!("c18:io-error", "into_inner returned an error on an in-memory sink: {e}"),
                Err(p) => panicked_at = Some((seq.len(), p)),
            }
        }
        match (&panicked_at, first_bad) {
            (Some((j, p)), None) => {
                return Err(Fail::new(
                    "c18:spurious-panic",
                    format!("the writer panicked at insert #{j} of a strictly ascending sequence of {} keys: {p}", seq.len()),
                ))
            }
            (Some((j, p)), Some(fb)) => {
                if *j < fb {
                    return Err(Fail::new(
                        "c18:spurious-panic",
                        format!("the writer panicked at insert #{j} although the sequence is strictly ascending up to #{}: {p}", fb - 1),
                    ));
                }
                obs.class("seq:panicked");
            }
            (None, _) => {}
        }
        if let Some(b) = &bytes {
            let opts = fmtdec::Opts { interval: None, check_order: true, check_global_order: false };
            if let Err(e) = fmtdec::decode(b, &opts) {
                let sig = if e.contains("ORDER") { "c18:unsorted-block" } else { "c18:malformed" };
                return Err(Fail::new(
                    sig,
                    format!(
                        "no panic, but the finished file is not made of sorted blocks ({}; first out-of-order insert #{:?} key {}): {}",
                        case_conf.label(),
                        first_bad,
                        first_bad.map(|i| brief(&seq[i].0)).unwrap_or_default(),
                        e
                    ),
                ));
            }
            if first_bad.is_some() {
                obs.class("seq:unsorted-no-panic");
            }
        }
        if first_bad.is_some() {
            obs.class("seq:unsorted");
        } else {
            obs.class("seq:sorted");
        }
        if after_cut {
            obs.class("seq:after-cut");
        }
        obs.nontrivial = first_bad.is_some();
        obs.sample = Some(json!({"conf": case_conf.label(), "inserts": seq.len(), "perturbs": perturbs,
            "first_out_of_order_insert": first_bad, "panicked_at": panicked_at.as_ref().map(|p| p.0)}));
        Ok(())
    }
}
