//! C14 — key and value lengths from 0 to 2^32-1 are framed losslessly.
//!
//! (i) the varint codec itself through hook H2: exhaustive over all 2^32 values (thorough) or all values near
//!     every framing boundary plus a seed-shifted stride through the whole domain (quick);
//! (ii) hook-free, through Writer -> Reader and the independent decoder: entries whose key/value lengths sit on
//!     either side of each framing boundary.

use std::sync::atomic::{AtomicU64, Ordering};

use proptest::collection::vec;
use proptest::prelude::*;
use serde::{Deserialize, Serialize};
use serde_json::{json, Value};

use crate::common::{write_file, Check, Codec, Entries, Fail, WConf};
use crate::fmtdec::{self, leb128_write};

/// Format conformance of the length framing (used by C09): the encoding is LEB128, as in grenad 0.4.7.
pub fn check_leb128(v: u32) -> Result<(), String> {
    let mut buf = [0u8; 10];
    let enc = grenad::verif::varint_encode32(&mut buf, v).to_vec();
    let ind = leb128_write(v);
    if enc != ind {
        return Err(format!("length {v} is framed as {:02x?}, the format (LEB128) requires {:02x?}", enc, ind));
    }
    Ok(())
}
use crate::gen::Tier;
use crate::rd;
use crate::runner::{stage, ExtraCtx, ExtraOut, Obs, Prop, Stage};
use crate::fail;

pub struct C14;

pub const BOUNDARIES: [u64; 4] = [1 << 7, 1 << 14, 1 << 21, 1 << 28];

/// one codec evaluation; `trail` selects the bytes appended after the encoding before decoding
#[inline]
pub fn check_value(v: u32, trail: u8) -> Result<(), String> {
    let mut buf = [0u8; 10];
    let enc = grenad::verif::varint_encode32(&mut buf, v).to_vec();
    let want_len = match v as u64 {
        x if x < (1 << 7) => 1,
        x if x < (1 << 14) => 2,
        x if x < (1 << 21) => 3,
        x if x < (1 << 28) => 4,
        _ => 5,
    };
    if enc.len() != want_len {
        return Err(format!("length {v} is encoded in {} bytes, expected {want_len}", enc.len()));
    }
    // decode exactly the encoding
    let mut out = 0u32;
    let used = grenad::verif::varint_decode32(&enc, &mut out);
    if out != v || used != enc.len() {
        return Err(format!("length {v}: decode(encode) = {out} consuming {used} of {} bytes", enc.len()));
    }
    // decode with arbitrary bytes following (the next field of the entry)
    let mut with_trail = enc.clone();
    match trail % 4 {
        0 => with_trail.extend_from_slice(&[0x00, 0x00, 0x00, 0x00, 0x00]),
        1 => with_trail.extend_from_slice(&[0xFF, 0xFF, 0xFF, 0xFF, 0xFF, 0xFF]),
        2 => with_trail.extend_from_slice(&[0x80, 0x80, 0x80, 0x80, 0x01]),
        _ => with_trail.extend_from_slice(&[trail, trail.wrapping_mul(37), 0x7f]),
    }
    let mut out = 0u32;
    let used = grenad::verif::varint_decode32(&with_trail, &mut out);
    if out != v || used != enc.len() {
        return Err(format!(
            "length {v} followed by {:02x?}: decoded {out} consuming {used} bytes, expected {} bytes",
            &with_trail[enc.len()..],
            enc.len()
        ));
    }
    Ok(())
}

#[derive(Clone, Debug, Hash, PartialEq, Eq, Serialize, Deserialize)]
pub struct LenSpec {
    /// 0 = near zero, 1..=3 = near 2^7, 2^14, 2^21
    pub boundary: u8,
    pub delta: i8,
}

impl LenSpec {
    pub fn len(&self) -> usize {
        let base: i64 = match self.boundary {
            0 => 0,
            1 => 1 << 7,
            2 => 1 << 14,
            _ => 1 << 21,
        };
        (base + self.delta as i64).max(0) as usize
    }
}

#[derive(Clone, Debug, Hash, Serialize, Deserialize)]
pub struct Case {
    pub codec: Codec,
    pub block_size: Option<usize>,
    pub lens: Vec<(LenSpec, LenSpec)>,
}

/// Builds distinct ascending keys of the requested lengths: key i = i-th distinguishing byte then filler.
pub fn entries_for(lens: &[(usize, usize)]) -> Entries {
    let mut m = std::collections::BTreeMap::new();
    for (i, (kl, vl)) in lens.iter().enumerate() {
        let mut k = vec![0x40u8; *kl];
        if let Some(f) = k.first_mut() {
            *f = 0x41 + i as u8;
        }
        let mut v = vec![0u8; *vl];
        for (j, b) in v.iter_mut().enumerate().step_by(997) {
            *b = (j % 251) as u8 ^ i as u8;
        }
        if let Some(l) = v.last_mut() {
            *l = 0xEE;
        }
        m.insert(k, v);
    }
    m.into_iter().collect()
}

/// API-level oracle: the entries come back byte-identical from the cursor (both directions) and from the
/// independent decoder, which also checks the framing bytes themselves.
pub fn check_roundtrip(conf: &WConf, entries: &Entries) -> Check {
    let bytes = write_file(conf, entries)?;
    let mut c = rd::cursor(&bytes)?;
    let fwd = rd::scan_fwd(&mut c, entries.len() + 1)?;
    if let Some(d) = rd::first_diff(&fwd, entries) {
        fail!("c14:api:forward", "entries with boundary lengths come back altered: {}", d);
    }
    let mut c = rd::cursor(&bytes)?;
    let bwd = rd::scan_bwd(&mut c, entries.len() + 1)?;
    let mut rev = entries.clone();
    rev.reverse();
    if let Some(d) = rd::first_diff(&bwd, &rev) {
        fail!("c14:api:backward", "entries with boundary lengths come back altered (backward): {}", d);
    }
    match fmtdec::decode(&bytes, &fmtdec::Opts::strict(conf.eff_interval())) {
        Ok(d) => {
            if let Some(diff) = rd::first_diff(&d.entries, entries) {
                fail!("c14:decoder", "independent decoder sees different entries: {}", diff);
            }
        }
        Err(e) => fail!("c14:decoder", "independent decoder rejects the framing: {e}"),
    }
    Ok(())
}

/// An entry whose lengths add up to 2^32 or more (>= 4 GiB): written and read back without ever copying it more than
/// the library itself does. Returns Ok(false) when the machine has not enough free memory (the case is skipped).
pub fn check_giant(klen: usize, vlen: usize) -> Check<bool> {
    let avail_kib: u64 = std::fs::read_to_string("/proc/meminfo")
        .ok()
        .and_then(|s| s.lines().find(|l| l.starts_with("MemAvailable:")).and_then(|l| l.split_whitespace().nth(1).and_then(|v| v.parse().ok())))
        .unwrap_or(0);
    if avail_kib < 30 * 1024 * 1024 {
        return Ok(false);
    }
    let key = {
        let mut k = vec![0x42u8; klen];
        if let Some(l) = k.last_mut() {
            *l = 0x43;
        }
        k
    };
    let val = {
        let mut v = vec![0x17u8; vlen];
        for i in (0..vlen).step_by(1 << 20) {
            v[i] = (i >> 20) as u8;
        }
        if let Some(l) = v.last_mut() {
            *l = 0xEE;
        }
        v
    };
    let r = crate::common::catch(|| -> Result<Result<(), String>, std::io::Error> {
        let mut w = grenad::Writer::memory();
        w.insert(b"\x01first", b"small")?;
        w.insert(&key, &val)?;
        let bytes = w.into_inner()?;
        let reader = match grenad::Reader::new(std::io::Cursor::new(bytes.as_slice())) {
            Ok(r) => r,
            Err(e) => return Ok(Err(format!("cannot open: {e}"))),
        };
        let mut c = match reader.into_cursor() {
            Ok(c) => c,
            Err(e) => return Ok(Err(format!("cannot create a cursor: {e}"))),
        };
        match c.move_on_next() {
            Ok(Some((k, v))) if k == b"\x01first" && v == b"small" => {}
            other => return Ok(Err(format!("first entry wrong: {:?}", other.map(|o| o.map(|(k, v)| (k.len(), v.len())))))),
        }
        match c.move_on_next() {
            Ok(Some((k, v))) => {
                if k.len() != key.len() || v.len() != val.len() {
                    return Ok(Err(format!("lengths ({}, {}) come back as ({}, {})", key.len(), val.len(), k.len(), v.len())));
                }
                if k != key.as_slice() || v != val.as_slice() {
                    return Ok(Err("the giant entry comes back with altered bytes".into()));
                }
            }
            other => return Ok(Err(format!("giant entry missing: {:?}", other.map(|o| o.map(|(k, v)| (k.len(), v.len())))))),
        }
        match c.move_on_next() {
            Ok(None) => Ok(Ok(())),
            other => Ok(Err(format!("unexpected third entry: {:?}", other.map(|o| o.map(|(k, v)| (k.len(), v.len())))))),
        }
    });
    match r {
        Ok(Ok(Ok(()))) => Ok(true),
        Ok(Ok(Err(m))) => Err(Fail::new("c14:giant", format!("entry with key length {klen} and value length {vlen}: {m}"))),
        Ok(Err(e)) => Err(Fail::new("c14:giant:io", format!("entry with key length {klen} and value length {vlen}: I/O error {e}"))),
        Err(p) => Err(Fail::new("c14:giant:panic", format!("entry with key length {klen} and value length {vlen}: panic {p}"))),
    }
}

fn sweep(ranges: Vec<(u64, u64, u64)>, threads: usize) -> (u64, Option<(u32, String)>) {
    // ranges: (start, end_exclusive, step)
    let done = AtomicU64::new(0);
    let fail: std::sync::Mutex<Option<(u32, String)>> = std::sync::Mutex::new(None);
    std::thread::scope(|s| {
        for t in 0..threads {
            let (done, fail, ranges) = (&done, &fail, &ranges);
            s.spawn(move || {
                let mut n = 0u64;
                for (a, b, step) in ranges.iter() {
                    let span = (b - a).div_ceil(*step);
                    let per = span.div_ceil(threads as u64);
                    let lo = t as u64 * per;
                    let hi = ((t as u64 + 1) * per).min(span);
                    let mut i = lo;
                    while i < hi {
                        let v = (a + i * step) as u32;
                        if let Err(e) = check_value(v, (v as u8) ^ (v >> 11) as u8) {
                            let mut f = fail.lock().unwrap();
                            if f.as_ref().map_or(true, |(fv, _)| v < *fv) {
                                *f = Some((v, e));
                            }
                            done.fetch_add(n, Ordering::Relaxed);
                            return;
                        }
                        n += 1;
                        i += 1;
                    }
                }
                done.fetch_add(n, Ordering::Relaxed);
            });
        }
    });
    (done.into_inner(), fail.into_inner().unwrap())
}

impl Prop for C14 {
    type Case = Case;

    fn id(&self) -> &'static str {
        "C14"
    }

    fn stages(&self, tier: Tier) -> Vec<Stage<Case>> {
        let len = (prop_oneof![3 => Just(0u8), 3 => Just(1u8), 3 => Just(2u8), 1 => Just(3u8)], -2i8..=2).prop_map(|(boundary, delta)| LenSpec { boundary, delta });
        let s = (
            prop_oneof![3 => Just(Codec::None), 1 => Just(Codec::Snappy), 1 => Just(Codec::Lz4), 1 => Just(Codec::Zlib)],
            prop_oneof![Just(None), Just(Some(1024usize)), Just(Some(usize::MAX))],
            vec((len.clone(), len), 1..=4),
        )
            .prop_map(|(codec, block_size, lens)| Case { codec, block_size, lens });
        vec![stage("api-random", s, tier.pick(300, 6000)).shrink(100)]
    }

    fn rule(&self) -> String {
        "(i) codec level (hook H2): for each length value v: encoded size matches its range (1..5 bytes by the framing \
         boundaries), decode(encode(v)) = v consuming exactly the encoded bytes, also when arbitrary bytes \
         (zeros, FF.., continuation-flagged) follow. quick: every v within 2^16 of 0, 2^7, 2^14, 2^21, 2^28, 2^32-1 plus a \
         stride-251 sweep of the whole domain shifted by the seed; thorough: all 2^32 values. (ii) API level: entries whose \
         key and value lengths are in {0,1,127,128,129,16383,16384,16385,2^21-1,2^21,2^21+1} in all 121 key x value pairings \
         (thorough adds 2^28-1, 2^28, 2^28+1), written and read back through cursor and independent decoder, plus generated \
         mixes of 1..4 such entries per file with several codecs. non-trivial = value with a multi-byte encoding / entry with \
         a length >= 128; distinct = the value / the (key length, value length) pair"
            .into()
    }

    fn exhaustive(&self, tier: Tier) -> bool {
        tier == Tier::Thorough
    }

    fn assumptions(&self) -> Vec<String> {
        vec!["quick: API-level lengths above 2^21+1 are not materialised; thorough adds 2^28-1..2^28+1 and two entries of >= 4 GiB (value of 2^32-1 bytes; key and value of 2^31 bytes each) when >= 30 GiB of memory are available".into()]
    }

    fn run(&self, case: &Case, obs: &mut Obs) -> Check {
        let lens: Vec<(usize, usize)> = case.lens.iter().map(|(k, v)| (k.len(), v.len())).collect();
        let entries = entries_for(&lens);
        let conf = WConf { codec: case.codec, level: 1, block_size: case.block_size, interval: None, levels: 0 };
        check_roundtrip(&conf, &entries)?;
        obs.nontrivial = lens.iter().any(|(k, v)| *k >= 128 || *v >= 128);
        obs.class(format!("codec={}", case.codec.name()));
        obs.sample = Some(json!({"kind": "api-random", "codec": case.codec.name(), "lengths(key,value)": lens}));
        Ok(())
    }

    fn extra(&self, tier: Tier, seed: u64, ctx: &ExtraCtx) -> ExtraOut {
        let mut out = ExtraOut::default();
        // (i) codec sweep
        let max = 1u64 << 32;
        let ranges: Vec<(u64, u64, u64)> = if tier == Tier::Thorough {
            vec![(0, max, 1)]
        } else {
            let w = 1u64 << 16;
            let mut r = vec![(0, w, 1), (max - w, max, 1)];
            for b in BOUNDARIES {
                r.push((b - w.min(b), b + w, 1));
            }
            r.push((seed % 251, max, 251));
            r
        };
        let (n, f) = sweep(ranges.clone(), ctx.threads);
        out.evaluations += n;
        out.counters.insert("codec_values_checked".into(), n);
        // all but the values below 128 have multi-byte encodings; counted exactly from the ranges
        let single: u64 = ranges.iter().map(|(a, b, s)| if *a < 128 { (128u64.min(*b) - a).div_ceil(*s) } else { 0 }).sum();
        // values visited twice (the stride sweep passing through a window) are counted once
        let mut dup = 0u64;
        if let Some((off, _, step)) = ranges.iter().find(|r| r.2 > 1) {
            for (a, b, _) in ranges.iter().filter(|r| r.2 == 1) {
                let first = if *a <= *off { *off } else { off + (a - off).div_ceil(*step) * step };
                let mut v = first;
                while v < *b {
                    if v >= 128 {
                        dup += 1;
                    }
                    v += step;
                }
            }
        }
        out.nontrivial += n.saturating_sub(single).saturating_sub(dup);
        if tier == Tier::Thorough && f.is_none() {
            out.exhaustive = Some(true);
        }
        out.samples.push(json!({"kind": "codec-sweep", "ranges(start,end,step)": ranges.iter().take(7).collect::<Vec<_>>(), "values": n}));
        if let Some((v, e)) = f {
            out.violations.push((Fail::new("c14:codec", e), json!({"CodecValue": v})));
            return out;
        }
        // (ii) API-level boundary pairings
        let mut lens: Vec<usize> = vec![0, 1, 127, 128, 129, 16383, 16384, 16385, (1 << 21) - 1, 1 << 21, (1 << 21) + 1];
        let conf = WConf { codec: Codec::None, level: 0, block_size: None, interval: None, levels: 0 };
        let mut pairs: Vec<(usize, usize)> = Vec::new();
        for k in &lens {
            for v in &lens {
                pairs.push((*k, *v));
            }
        }
        if tier == Tier::Thorough {
            for big in [(1usize << 28) - 1, 1 << 28, (1 << 28) + 1] {
                pairs.push((3, big));
                pairs.push((big, 3));
            }
            // both lengths large at once: a 3- or 4-byte key length next to a 5-byte value length and vice versa
            pairs.push((1 << 21, 1 << 28));
            pairs.push(((1 << 21) + 1, (1 << 28) + 1));
            pairs.push(((1 << 28) - 1, 1 << 28));
            pairs.push((1 << 28, 1 << 21));
            pairs.push((16384, 1 << 28));
            lens.push(1 << 28);
        }
        let results: std::sync::Mutex<Vec<(Fail, Value)>> = std::sync::Mutex::new(Vec::new());
        let next = AtomicU64::new(0);
        let workers = if tier == Tier::Thorough { 4 } else { ctx.threads };
        std::thread::scope(|s| {
            for _ in 0..workers {
                s.spawn(|| loop {
                    let i = next.fetch_add(1, Ordering::Relaxed) as usize;
                    if i >= pairs.len() {
                        break;
                    }
                    let (k, v) = pairs[i];
                    // a neighbour entry before and after, so that the boundary entry is framed on both sides
                    let entries = entries_for(&[(k, v)]);
                    let mut es = entries.clone();
                    es.push((vec![0x7f; 3], vec![1, 2, 3]));
                    es.sort();
                    if let Err(f) = crate::common::catch(|| check_roundtrip(&conf, &es)).unwrap_or_else(|p| Err(Fail::new("c14:panic", p))) {
                        results.lock().unwrap().push((f, json!({"ApiPair": [k, v]})));
                    }
                });
            }
        });
        out.evaluations += pairs.len() as u64;
        out.nontrivial += pairs.iter().filter(|(k, v)| *k >= 128 || *v >= 128).count() as u64;
        out.counters.insert("api_pairs_checked".into(), pairs.len() as u64);
        out.samples.push(json!({"kind": "api-pairs", "lengths": lens, "pairs": pairs.len()}));
        out.violations.extend(results.into_inner().unwrap());
        // thorough: entries whose key and value lengths add up to 2^32 or more (one at a time: ~15 GiB each)
        if tier == Tier::Thorough && out.violations.is_empty() && std::env::var("VERIF_NO_GIANT").is_err() {
            for (k, v) in [(3usize, u32::MAX as usize), (1usize << 31, 1usize << 31)] {
                match check_giant(k, v) {
                    Ok(true) => {
                        out.evaluations += 1;
                        out.nontrivial += 1;
                        *out.counters.entry("giant_entries_checked".into()).or_insert(0) += 1;
                    }
                    Ok(false) => {
                        *out.counters.entry("giant_entries_skipped_low_memory".into()).or_insert(0) += 1;
                    }
                    Err(f) => out.violations.push((f, json!({"GiantEntry": [k, v]}))),
                }
            }
            out.samples.push(json!({"kind": "giant-entries", "lengths(key,value)": [[3, u32::MAX], [1u64 << 31, 1u64 << 31]]}));
        }
        out
    }
}
