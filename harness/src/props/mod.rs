pub mod c01;
