//! C04 — range iterators yield exactly the in-range entries, in order, for all bounds.

use std::ops::Bound;

use proptest::collection::vec;
use proptest::prelude::*;
use serde::{Deserialize, Serialize};
use serde_json::json;

use crate::common::{brief, hash_of, write_file, Check, Entries, FileSpec};
use crate::gen::{self, Tier};
use crate::model::Probe;
use crate::props::c01::layout_classes;
use crate::rd;
use crate::runner::{stage, Obs, Prop, Stage};
use crate::fail;

pub struct C04;

#[derive(Clone, Debug, Hash, PartialEq, Eq, Serialize, Deserialize)]
pub enum BoundSpec {
    Unbounded,
    Included(Probe),
    Excluded(Probe),
}

impl BoundSpec {
    pub fn materialise(&self, e: &Entries) -> Bound<Vec<u8>> {
        match self {
            BoundSpec::Unbounded => Bound::Unbounded,
            BoundSpec::Included(p) => Bound::Included(p.bytes(e)),
            BoundSpec::Excluded(p) => Bound::Excluded(p.bytes(e)),
        }
    }
}

#[derive(Clone, Debug, Hash, Serialize, Deserialize)]
pub struct Case {
    pub spec: FileSpec,
    pub ranges: Vec<(BoundSpec, BoundSpec)>,
}

fn bound_of(p: BoxedStrategy<Probe>) -> BoxedStrategy<BoundSpec> {
    prop_oneof![
        1 => Just(BoundSpec::Unbounded),
        3 => p.clone().prop_map(BoundSpec::Included),
        3 => p.prop_map(BoundSpec::Excluded),
    ]
    .boxed()
}

fn wrap(kind: u8, p: Probe) -> BoundSpec {
    if kind & 1 == 0 {
        BoundSpec::Included(p)
    } else {
        BoundSpec::Excluded(p)
    }
}

pub fn range_strategy() -> BoxedStrategy<(BoundSpec, BoundSpec)> {
    prop_oneof![
        // independent bounds, no a <= b assumption
        6 => (bound_of(gen::probe()), bound_of(gen::probe())),
        // equal bounds, all four inclusive/exclusive mixes
        2 => (gen::probe(), 0u8..2, 0u8..2).prop_map(|(p, a, b)| (wrap(a, p.clone()), wrap(b, p))),
        // both stored (ordered or inverted)
        3 => (any::<u16>(), any::<u16>(), 0u8..2, 0u8..2)
            .prop_map(|(i, j, a, b)| (wrap(a, Probe::Key(i)), wrap(b, Probe::Key(j)))),
        // adjacent stored keys
        2 => (any::<u16>(), -1i8..=1, 0u8..2, 0u8..2)
            .prop_map(|(i, off, a, b)| (wrap(a, Probe::Key(i)), wrap(b, Probe::KeyOff(i, off)))),
        // outside the key span
        1 => (0u8..2, 0u8..2).prop_map(|(a, b)| (wrap(a, Probe::Empty), wrap(b, Probe::AllFF))),
        1 => (0u8..2, 0u8..2).prop_map(|(a, b)| (wrap(a, Probe::AfterLast), wrap(b, Probe::AllFF))),
        1 => (0u8..2, gen::probe()).prop_map(|(a, p)| (BoundSpec::Unbounded, wrap(a, p))),
        1 => (0u8..2, gen::probe()).prop_map(|(a, p)| (wrap(a, p), BoundSpec::Unbounded)),
    ]
    .boxed()
}

fn in_start(b: &Bound<Vec<u8>>, k: &[u8]) -> bool {
    match b {
        Bound::Unbounded => true,
        Bound::Included(s) => k >= s.as_slice(),
        Bound::Excluded(s) => k > s.as_slice(),
    }
}
fn in_end(b: &Bound<Vec<u8>>, k: &[u8]) -> bool {
    match b {
        Bound::Unbounded => true,
        Bound::Included(s) => k <= s.as_slice(),
        Bound::Excluded(s) => k < s.as_slice(),
    }
}

fn show_bounds(r: &(Bound<Vec<u8>>, Bound<Vec<u8>>)) -> String {
    let f = |b: &Bound<Vec<u8>>| match b {
        Bound::Unbounded => "Unbounded".to_string(),
        Bound::Included(v) => format!("Included({})", brief(v)),
        Bound::Excluded(v) => format!("Excluded({})", brief(v)),
    };
    format!("({}, {})", f(&r.0), f(&r.1))
}

/// Runs both range iterators over `reader` for one pair of bounds and compares with `entries`.
pub fn check_range<R: std::io::Read + std::io::Seek + Clone>(
    reader: &grenad::Reader<R>,
    entries: &Entries,
    r: &(Bound<Vec<u8>>, Bound<Vec<u8>>),
    sigp: &str,
) -> Check<Entries> {
    let want: Entries = entries.iter().filter(|(k, _)| in_start(&r.0, k) && in_end(&r.1, k)).cloned().collect();
    let mut it = rd::guard("into_range_iter", || reader.clone().into_range_iter(r.clone()))?;
    let mut got = Vec::new();
    while let Some(e) = rd::guard("RangeIter::next", || it.next().map(rd::own))? {
        got.push(e);
        if got.len() > entries.len() + 1 {
            break;
        }
    }
    if let Some(d) = rd::first_diff(&got, &want) {
        fail!(format!("{sigp}:fwd"), "forward range {} over {} entries: {}", show_bounds(r), entries.len(), d);
    }
    let mut it = rd::guard("into_rev_range_iter", || reader.clone().into_rev_range_iter(r.clone()))?;
    let mut got = Vec::new();
    while let Some(e) = rd::guard("RevRangeIter::next", || it.next().map(rd::own))? {
        got.push(e);
        if got.len() > entries.len() + 1 {
            break;
        }
    }
    let mut rev = want.clone();
    rev.reverse();
    if let Some(d) = rd::first_diff(&got, &rev) {
        fail!(format!("{sigp}:rev"), "reverse range {} over {} entries: {}", show_bounds(r), entries.len(), d);
    }
    // iterators are Clone: a clone taken mid-iteration and kept alive must not disturb the original, and must itself
    // continue from the same place
    if want.len() >= 2 {
        let mut it = rd::guard("into_range_iter", || reader.clone().into_range_iter(r.clone()))?;
        let first = rd::guard("RangeIter::next", || it.next().map(rd::own))?;
        let mut cl = it.clone();
        let mut a = vec![];
        while let Some(e) = rd::guard("RangeIter::next", || it.next().map(rd::own))? {
            a.push(e);
            if a.len() > entries.len() {
                break;
            }
        }
        let mut b = vec![];
        while let Some(e) = rd::guard("RangeIter::next", || cl.next().map(rd::own))? {
            b.push(e);
            if b.len() > entries.len() {
                break;
            }
        }
        let rest: Entries = want[1..].to_vec();
        if first.as_ref() != want.first() || a != rest || b != rest {
            fail!(
                format!("{sigp}:clone"),
                "range {} over {} entries: after cloning the iterator mid-way, original yields {} more entries and the clone {} (expected {} each)",
                show_bounds(r), entries.len(), a.len(), b.len(), rest.len()
            );
        }
        let mut it = rd::guard("into_rev_range_iter", || reader.clone().into_rev_range_iter(r.clone()))?;
        let first = rd::guard("RevRangeIter::next", || it.next().map(rd::own))?;
        let mut cl = it.clone();
        let mut a = vec![];
        while let Some(e) = rd::guard("RevRangeIter::next", || it.next().map(rd::own))? {
            a.push(e);
            if a.len() > entries.len() {
                break;
            }
        }
        let mut b = vec![];
        while let Some(e) = rd::guard("RevRangeIter::next", || cl.next().map(rd::own))? {
            b.push(e);
            if b.len() > entries.len() {
                break;
            }
        }
        let rest: Entries = rev[1..].to_vec();
        if first.as_ref() != rev.first() || a != rest || b != rest {
            fail!(
                format!("{sigp}:clone"),
                "reverse range {} over {} entries: after cloning the iterator mid-way, original yields {} more entries and the clone {} (expected {} each)",
                show_bounds(r), entries.len(), a.len(), b.len(), rest.len()
            );
        }
    }
    Ok(want)
}

impl Prop for C04 {
    type Case = Case;

    fn id(&self) -> &'static str {
        "C04"
    }

    fn stages(&self, tier: Tier) -> Vec<Stage<Case>> {
        let k = tier.pick(40, 60);
        let s = (gen::file_spec(tier), vec(range_strategy(), k)).prop_map(|(spec, ranges)| Case { spec, ranges });
        vec![stage("files", s, tier.pick(3000, 40_000)).shrink(800)]
    }

    fn rule(&self) -> String {
        "case = file x list of (start, end) bounds in {Unbounded, Included, Excluded}^2 over independent probes (equal, \
         inverted, adjacent, stored, absent, outside the span all forced by dedicated generators); non-trivial range = result \
         spans >=2 data blocks, or is empty with both bounds stored (inversion/exclusion), or has an Excluded bound equal to \
         a stored key; distinct = hash(file, bounds)"
            .into()
    }

    fn health(&self, tier: Tier) -> Vec<(&'static str, u64)> {
        let m = tier.pick(1, 20);
        vec![
            ("range:inverted", 200 * m),
            ("range:equal-bounds", 200 * m),
            ("range:excluded-stored", 500 * m),
            ("range:spans-blocks", 500 * m),
            ("range:empty-both-stored", 100 * m),
        ]
    }

    fn extra(&self, tier: Tier, _seed: u64, ctx: &crate::runner::ExtraCtx) -> crate::runner::ExtraOut {
        // bounded-exhaustive enumeration: every key set over a tiny alphabet x every probe over it
        crate::smallscope::ranges(tier, ctx.threads)
    }

    fn run(&self, case: &Case, obs: &mut Obs) -> Check {
        let entries = case.spec.src.entries();
        let bytes = write_file(&case.spec.conf, &entries)?;
        let reader = rd::open(&bytes)?;
        let d = layout_classes(&case.spec, &bytes, entries.len(), obs);
        let fh = hash_of(&case.spec);
        let stored = |b: &Bound<Vec<u8>>| match b {
            Bound::Included(v) | Bound::Excluded(v) => entries.binary_search_by(|(k, _)| k.cmp(v)).is_ok(),
            Bound::Unbounded => false,
        };
        let mut classes: Vec<&'static str> = Vec::new();
        for rs in &case.ranges {
            let r = (rs.0.materialise(&entries), rs.1.materialise(&entries));
            let want = check_range(&reader, &entries, &r, "c04")?;
            let mut nt = false;
            // classification
            let sv = |b: &Bound<Vec<u8>>| match b {
                Bound::Included(v) | Bound::Excluded(v) => Some(v.clone()),
                _ => None,
            };
            if let (Some(a), Some(b)) = (sv(&r.0), sv(&r.1)) {
                if a > b {
                    classes.push("range:inverted");
                }
                if a == b {
                    classes.push("range:equal-bounds");
                }
            }
            let excl_stored = (matches!(r.0, Bound::Excluded(_)) && stored(&r.0)) || (matches!(r.1, Bound::Excluded(_)) && stored(&r.1));
            if excl_stored {
                classes.push("range:excluded-stored");
                nt = true;
            }
            if want.is_empty() && stored(&r.0) && stored(&r.1) {
                classes.push("range:empty-both-stored");
                nt = true;
            }
            if let (Some(d), Some(f), Some(l)) = (d.as_ref(), want.first(), want.last()) {
                let bi = |k: &Vec<u8>| entries.binary_search_by(|(x, _)| x.cmp(k)).ok().map(|i| d.entry_block.get(i).copied());
                if bi(&f.0) != bi(&l.0) {
                    classes.push("range:spans-blocks");
                    nt = true;
                }
            }
            if nt {
                obs.sub_nontrivial.push(hash_of(&(fh, rs)));
            }
        }
        for c in classes {
            obs.class(c);
        }
        obs.add("ranges", case.ranges.len() as u64 * 2);
        obs.nontrivial = !obs.sub_nontrivial.is_empty();
        obs.sample = Some(json!({
            "conf": case.spec.conf.label(), "entries": entries.len(),
            "ranges": case.ranges.iter().take(3).map(|r| show_bounds(&(r.0.materialise(&entries), r.1.materialise(&entries)))).collect::<Vec<_>>(),
        }));
        Ok(())
    }
}
