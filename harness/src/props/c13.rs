//! C13 — opening never panics and accepts exactly byte strings ending in a valid trailer.

use std::io::Cursor;

use proptest::collection::vec;
use proptest::prelude::*;
use serde::{Deserialize, Serialize};
use serde_json::json;

use crate::common::{brief, catch, hash_of, hexv, write_file, Blob, Check, EntrySrc, Fail, FileSpec, MAGIC_V1, MAGIC_V2};
use crate::fmtdec;
use crate::gen::{self, Tier};
use crate::props::c10::to_v1;
use crate::runner::{stage, Obs, Prop, Stage};
use crate::fail;

pub struct C13;

#[derive(Clone, Debug, Hash, Serialize, Deserialize)]
pub enum Case {
    /// a finished small file (optionally re-encoded as V1): every truncation, every single-byte trailer corruption
    File { spec: FileSpec, v1: bool },
    /// prefix ‖ record ‖ magic, each part independently valid / invalid / short
    Synth {
        #[serde(with = "hexv")]
        prefix: Vec<u8>,
        #[serde(with = "hexv")]
        record: Vec<u8>,
        #[serde(with = "hexv")]
        magic: Vec<u8>,
    },
    /// arbitrary bytes
    Raw(#[serde(with = "hexv")] Vec<u8>),
}

/// The oracle: `Reader::new` must succeed exactly when `parse_trailer` finds a complete trailer, must never
/// panic, and must report the independently parsed fields.
pub fn check_open(b: &[u8]) -> Check<bool> {
    let r = check_open_with(b, false)?;
    // the same bytes behind a reader with OS-file seek semantics (offsets beyond i64::MAX are refused) and no
    // specialised read methods: the verdict may not depend on the reader type
    let r2 = check_open_with(b, true)?;
    debug_assert_eq!(r, r2);
    Ok(r)
}

fn check_open_with(b: &[u8], file_like: bool) -> Check<bool> {
    let want = fmtdec::parse_trailer(b);
    let got = if file_like {
        let src = crate::ioinstr::Source::file_like(std::rc::Rc::new(b.to_vec()), crate::ioinstr::ctl());
        catch(|| grenad::Reader::new(src).map(|r| (r.file_version(), r.len(), r.compression_type() as u8)))
    } else {
        catch(|| grenad::Reader::new(Cursor::new(b)).map(|r| (r.file_version(), r.len(), r.compression_type() as u8)))
    };
    let how = if file_like { " (through a file-like Read+Seek source)" } else { "" };
    match (got, want) {
        (Err(p), _) => Err(Fail::new(
            "c13:panic",
            format!("Reader::new panicked{how} on {} bytes ending in {}: {}", b.len(), brief(&b[b.len().saturating_sub(24)..]), p),
        )),
        (Ok(Ok((ver, len, codec))), Ok(t)) => {
            let v = if ver == grenad::FileVersion::FormatV1 { 1 } else { 2 };
            if v != t.version || len != t.count || codec != t.codec_id {
                fail!(
                    "c13:fields",
                    "opened {} bytes as version {} count {} codec {} but the trailer says version {} count {} codec {}",
                    b.len(), v, len, codec, t.version, t.count, t.codec_id
                );
            }
            Ok(true)
        }
        (Ok(Err(_)), Err(_)) => Ok(false),
        (Ok(Ok(_)), Err(why)) => Err(Fail::new(
            "c13:accepted-invalid",
            format!("Reader::new accepted{how} {} bytes ending in {} although: {}", b.len(), brief(&b[b.len().saturating_sub(24)..]), why),
        )),
        (Ok(Err(e)), Ok(t)) => Err(Fail::new(
            "c13:rejected-valid",
            format!(
                "Reader::new rejected{how} ({:?}) {} bytes that end in a complete version-{} trailer {}",
                e, b.len(), t.version, brief(&b[b.len() - t.size..])
            ),
        )),
    }
}

fn small_file() -> BoxedStrategy<FileSpec> {
    let val = prop_oneof![
        4 => gen::val_small(),
        2 => (0u16..30, any::<bool>(), 0u8..=7, 0u64..50).prop_map(|(pad, v2, codec, count)| Blob::Trailer { pad, v2, codec, count }),
        1 => (80u32..300, any::<u64>()).prop_map(|(n, seed)| Blob::Rand { n, seed }),
    ];
    let src = vec((gen::key_any(), val), 0..=24).prop_map(EntrySrc::List);
    (gen::wconf_with(prop_oneof![4 => 0u8..=3, 1 => any::<u8>()].boxed()), src)
        .prop_map(|(mut conf, src)| {
            if gen::heavy(&conf) {
                conf.level = 3;
            }
            FileSpec { conf, src }
        })
        .boxed()
}

fn synth() -> BoxedStrategy<Case> {
    let magic = prop_oneof![
        4 => Just(MAGIC_V2.to_le_bytes().to_vec()),
        4 => Just(MAGIC_V1.to_le_bytes().to_vec()),
        1 => Just(MAGIC_V2.to_be_bytes().to_vec()),
        1 => Just(MAGIC_V1.to_be_bytes().to_vec()),
        1 => (0usize..4, any::<bool>()).prop_map(|(n, v2)| {
            let m = if v2 { MAGIC_V2 } else { MAGIC_V1 };
            m.to_le_bytes()[4 - n..].to_vec()
        }),
        1 => (0u8..32, any::<bool>()).prop_map(|(bit, v2)| {
            let m = (if v2 { MAGIC_V2 } else { MAGIC_V1 }) ^ (1u32 << bit);
            m.to_le_bytes().to_vec()
        }),
        1 => vec(any::<u8>(), 4),
    ];
    // an 18-byte record whose codec byte sits where the V2 layout expects it, or a 17-byte one for V1, or a
    // too-short tail of either
    let record = (
        vec(any::<u8>(), 18),
        prop_oneof![4 => 0u8..=5, 2 => 6u8..=8, 1 => any::<u8>()],
        prop_oneof![3 => Just(17usize), 3 => Just(18usize), 1 => 0usize..=18],
    )
        .prop_map(|(mut r, codec, keep)| {
            r.truncate(keep.max(9).min(18));
            r[8] = codec;
            r[r.len() - keep.min(r.len())..].to_vec()
        });
    // a magic number planted at an arbitrary position of (prefix ‖ record): a scan for "the first magic" goes astray
    let plant = prop_oneof![2 => Just(None), 1 => (any::<u8>(), any::<bool>()).prop_map(Some)];
    (vec(any::<u8>(), 0..=30), record, magic, plant)
        .prop_map(|(mut prefix, mut record, magic, plant)| {
            if let Some((at, v2)) = plant {
                let m = if v2 { MAGIC_V2 } else { MAGIC_V1 }.to_le_bytes();
                let total = prefix.len() + record.len();
                if total >= 4 {
                    // positions biased to the last 22 bytes before the magic
                    let lo = total.saturating_sub(22);
                    let p = lo + (at as usize) % (total - 3 - lo.min(total - 4)).max(1);
                    let p = p.min(total - 4);
                    for (i, byte) in m.iter().enumerate() {
                        let q = p + i;
                        if q < prefix.len() {
                            prefix[q] = *byte;
                        } else {
                            // never overwrite the codec byte position check: the predicate decides anyway
                            record[q - prefix.len()] = *byte;
                        }
                    }
                }
            }
            Case::Synth { prefix, record, magic }
        })
        .boxed()
}

impl Prop for C13 {
    type Case = Case;

    fn id(&self) -> &'static str {
        "C13"
    }

    fn level(&self) -> &'static str {
        "fault_enumeration"
    }

    fn stages(&self, tier: Tier) -> Vec<Stage<Case>> {
        vec![
            stage("files", (small_file(), any::<bool>()).prop_map(|(mut spec, v1)| {
                if v1 {
                    spec.conf.levels = 0;
                }
                Case::File { spec, v1 }
            }), tier.pick(960, 20_000)).shrink(200),
            stage("synth", synth(), tier.pick(100_000, 2_000_000)),
            stage("raw", vec(any::<u8>(), 0..64).prop_map(Case::Raw), tier.pick(10_000, 200_000)),
        ]
    }

    fn rule(&self) -> String {
        "File case: for one generated finished file (<= ~4 KB, V2 or re-encoded V1, values seeded with embedded trailers) \
         EVERY truncation length 0..=len (crash points) and EVERY single-byte change of each trailer byte is opened; Synth \
         case: prefix ‖ (possibly short) metadata record ‖ (valid/invalid/short) magic; Raw: arbitrary bytes. Oracle: an \
         independent predicate 'ends with a complete trailer: known magic, full record of that version, codec id <= 5'; open \
         must succeed iff it holds, never panic, and report the independently parsed version/count/codec. non-trivial = a \
         truncation or corruption or synthetic string (not the intact file); distinct = hash of the opened byte string's \
         (length, last 32 bytes)"
            .into()
    }

    fn exhaustive(&self, _tier: Tier) -> bool {
        false
    }

    fn health(&self, tier: Tier) -> Vec<(&'static str, u64)> {
        vec![("accepted_truncations", tier.pick(20, 500)), ("rejected_by_codec", tier.pick(1000, 30000)), ("synth_accepted", tier.pick(2000, 50000))]
    }

    fn fuzz_targets(&self) -> Vec<(&'static str, u64)> {
        vec![("fuzz_open", 250_000)]
    }

    fn run(&self, case: &Case, obs: &mut Obs) -> Check {
        match case {
            Case::File { spec, v1 } => {
                let entries = spec.src.entries();
                let mut bytes = write_file(&spec.conf, &entries)?;
                if *v1 && spec.conf.levels == 0 {
                    bytes = to_v1(&bytes).map_err(|e| Fail::new("c13:harness", e))?;
                }
                let tsize = if *v1 && spec.conf.levels == 0 { 21 } else { 22 };
                // the intact file must open
                if !check_open(&bytes)? {
                    fail!("c13:rejected-valid", "the intact finished file is rejected");
                }
                let fh = hash_of(&bytes);
                let mut opens = 1u64;
                // every truncation (crash point)
                for cut in 0..bytes.len() {
                    let b = &bytes[..cut];
                    let ok = check_open(b)?;
                    opens += 1;
                    if ok {
                        obs.add("accepted_truncations", 1);
                    }
                    obs.sub_nontrivial.push(hash_of(&(fh, 0u8, cut)));
                }
                // every single-byte change of every trailer byte
                let n = bytes.len();
                let mut b = bytes.clone();
                for pos in n - tsize..n {
                    let orig = b[pos];
                    for v in 0..=255u8 {
                        if v == orig {
                            continue;
                        }
                        b[pos] = v;
                        let ok = check_open(&b)?;
                        opens += 1;
                        if !ok {
                            let why = fmtdec::parse_trailer(&b).err().unwrap_or("");
                            if why.contains("codec") {
                                obs.add("rejected_by_codec", 1);
                            } else if why.contains("magic") {
                                obs.add("rejected_by_magic", 1);
                            } else {
                                obs.add("rejected_by_length", 1);
                            }
                        } else {
                            obs.add("accepted_corruptions", 1);
                        }
                        obs.sub_nontrivial.push(hash_of(&(fh, 1u8, pos, v)));
                    }
                    b[pos] = orig;
                }
                obs.add("opens", opens);
                obs.add("files_enumerated", 1);
                obs.class(if *v1 && spec.conf.levels == 0 { "file:v1" } else { "file:v2" });
                obs.nontrivial = true;
                obs.sample = Some(json!({"kind": "file", "conf": spec.conf.label(), "entries": entries.len(), "bytes": n,
                    "truncations": n, "trailer_corruptions": tsize * 255}));
                Ok(())
            }
            Case::Synth { prefix, record, magic } => {
                let mut b = prefix.clone();
                b.extend_from_slice(record);
                b.extend_from_slice(magic);
                let ok = check_open(&b)?;
                obs.add("opens", 1);
                obs.add(if ok { "synth_accepted" } else { "synth_rejected" }, 1);
                obs.class("synth");
                obs.nontrivial = true;
                obs.sample = Some(json!({"kind": "synth", "bytes": hexv::to_hex(&b), "accepted": ok}));
                Ok(())
            }
            Case::Raw(b) => {
                let ok = check_open(b)?;
                obs.add("opens", 1);
                obs.add(if ok { "raw_accepted" } else { "raw_rejected" }, 1);
                obs.class("raw");
                obs.nontrivial = true;
                obs.sample = Some(json!({"kind": "raw", "bytes": hexv::to_hex(b), "accepted": ok}));
                Ok(())
            }
        }
    }
}
