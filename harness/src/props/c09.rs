//! C09 — files conform to the V2 format and interoperate with grenad 0.4.7 both ways.

use std::io::Cursor;

use proptest::collection::vec;
use proptest::prelude::*;
use serde::{Deserialize, Serialize};
use serde_json::json;

use crate::common::{catch, panic_sig, write_file, Check, Codec, Entries, Fail, FileSpec};
use crate::fmtdec;
use crate::gen::{self, Tier};
use crate::model::{Model, Probe};
use crate::props::c02::{check_seeks, probe_set};
use crate::rd;
use crate::runner::{stage, Obs, Prop, Stage};
use crate::{ensure, fail};

pub struct C09;

#[derive(Clone, Debug, Hash, Serialize, Deserialize)]
pub struct Case {
    pub spec: FileSpec,
    pub picks: Vec<u16>,
    pub probes: Vec<Probe>,
}

fn scan04(bytes: &[u8]) -> Check<(u64, Entries)> {
    let r = catch(|| -> Result<(u64, Entries), grenad04::Error> {
        let reader = grenad04::Reader::new(Cursor::new(bytes))?;
        let len = reader.len();
        let mut c = reader.into_cursor()?;
        let mut out = Vec::new();
        while let Some((k, v)) = c.move_on_next()? {
            out.push((k.to_vec(), v.to_vec()));
        }
        Ok((len, out))
    });
    match r {
        Ok(Ok(x)) => Ok(x),
        Ok(Err(e)) => Err(Fail::new("c09:047-reader:err", format!("grenad 0.4.7 cannot read the file: {e}"))),
        Err(p) => Err(Fail::new(format!("c09:047-reader:{}", panic_sig(&p)), format!("grenad 0.4.7 panicked reading the file: {p}"))),
    }
}

fn write04(spec: &FileSpec, entries: &Entries) -> Result<Vec<u8>, String> {
    let r = catch(|| -> std::io::Result<Vec<u8>> {
        let mut w = spec.conf.builder04().memory();
        for (k, v) in entries {
            w.insert(k, v)?;
        }
        w.into_inner()
    });
    match r {
        Ok(Ok(b)) => Ok(b),
        Ok(Err(e)) => Err(format!("0.4.7 writer error: {e}")),
        Err(p) => Err(format!("0.4.7 writer panic: {p}")),
    }
}

impl Prop for C09 {
    type Case = Case;

    fn id(&self) -> &'static str {
        "C09"
    }

    fn stages(&self, tier: Tier) -> Vec<Stage<Case>> {
        let s = (gen::file_spec(tier), vec(any::<u16>(), 60), vec(gen::probe(), 20))
            .prop_map(|(spec, picks, probes)| Case { spec, picks, probes });
        vec![stage("files", s, tier.pick(2500, 30_000)).shrink(800)]
    }

    fn rule(&self) -> String {
        "case = (configuration, entry set) as in C01. Oracles: (1) the independent decoder accepts the current writer's \
         file with every structural check on (tiling, varint framing, offset tables at the configured interval, index keys = \
         last key of child, children in file order, every block reachable once, root last, 22-byte LE trailer) and returns \
         the inserted entries, codec, count, levels; (2) grenad 0.4.7's reader scans the same bytes to the same entries; \
         (3) the same entries written by grenad 0.4.7's writer (levels<=254) are read by the current reader (forward, \
         backward, seek alphabet). non-trivial = n>=1 and (codec != None or a multi-block non-root index level); distinct = \
         hash(configuration, entries)"
            .into()
    }

    fn assumptions(&self) -> Vec<String> {
        vec![
            "the compression crates (snap, flate2, lz4_flex, zstd) decode their own formats correctly".into(),
            "grenad 0.4.7 from the cargo cache is the frozen peer; its writer is not driven with index_levels=255 (it has defect D1)".into(),
        ]
    }

    fn health(&self, tier: Tier) -> Vec<(&'static str, u64)> {
        let m = tier.pick(1, 10);
        vec![("multi-block-index-level", 40 * m), ("written-by-047", 1500 * m), ("codec=zstd", 150 * m), ("codec=lz4", 150 * m)]
    }

    fn fuzz_targets(&self) -> Vec<(&'static str, u64)> {
        vec![("fuzz_writer", 15_000)]
    }

    fn extra(&self, tier: Tier, seed: u64, _ctx: &crate::runner::ExtraCtx) -> crate::runner::ExtraOut {
        // length framing conformance: the bytes must be LEB128 (what grenad 0.4.7 reads) for lengths that cannot be
        // materialised as entries; windows around every framing boundary, plus a strided walk of the whole domain
        let mut out = crate::runner::ExtraOut::default();
        let w: u64 = tier.pick(1 << 12, 1 << 16);
        let max = 1u64 << 32;
        let mut n = 0u64;
        let mut check = |v: u64, out: &mut crate::runner::ExtraOut| -> bool {
            n += 1;
            if let Err(e) = crate::props::c14::check_leb128(v as u32) {
                out.violations.push((Fail::new("c09:framing", e), serde_json::json!({"FramedLength": v})));
                return false;
            }
            true
        };
        let mut ranges = vec![(0u64, w), (max - w, max)];
        for b in crate::props::c14::BOUNDARIES {
            ranges.push((b - w.min(b), b + w));
        }
        'outer: for (a, b) in ranges {
            for v in a..b {
                if !check(v, &mut out) {
                    break 'outer;
                }
            }
        }
        let step = tier.pick(65_521u64, 1021);
        let mut v = seed % step;
        while v < max && out.violations.is_empty() {
            check(v, &mut out);
            v += step;
        }
        out.evaluations += n;
        out.nontrivial += n.saturating_sub(128);
        out.counters.insert("framed_lengths_checked".into(), n);
        out.samples.push(serde_json::json!({"kind": "length-framing-conformance", "values": n, "window": w, "stride": step}));
        out
    }

    fn run(&self, case: &Case, obs: &mut Obs) -> Check {
        let spec = &case.spec;
        let entries = spec.src.entries();
        let n = entries.len();
        let bytes = write_file(&spec.conf, &entries)?;

        // (1) independent decoder, all structural checks
        let d = match fmtdec::decode(&bytes, &fmtdec::Opts::strict(spec.conf.eff_interval())) {
            Ok(d) => d,
            Err(e) => fail!("c09:format", "the file is not a well-formed V2 file ({}): {}", spec.conf.label(), e),
        };
        ensure!(d.trailer.version == 2, "c09:trailer:version", "trailer version {}", d.trailer.version);
        ensure!(d.trailer.codec_id == spec.conf.codec.id(), "c09:trailer:codec", "trailer codec id {} for {:?}", d.trailer.codec_id, spec.conf.codec);
        ensure!(d.trailer.count == n as u64, "c09:trailer:count", "trailer count {} for {} inserts", d.trailer.count, n);
        ensure!(d.trailer.levels == spec.conf.levels, "c09:trailer:levels", "trailer levels {} configured {}", d.trailer.levels, spec.conf.levels);
        if let Some(diff) = rd::first_diff(&d.entries, &entries) {
            fail!("c09:decoder-content", "independent decoder recovers different entries: {}", diff);
        }

        // (2) frozen 0.4.7 reader on the current writer's bytes
        let (len04, got04) = scan04(&bytes)?;
        ensure!(len04 == n as u64, "c09:047-reader:len", "0.4.7 reports len {} for {} inserts", len04, n);
        if let Some(diff) = rd::first_diff(&got04, &entries) {
            fail!("c09:047-reader:content", "grenad 0.4.7 reads different entries from the file: {}", diff);
        }

        // (3) 0.4.7 writer -> current reader
        if spec.conf.levels < 255 {
            match write04(spec, &entries) {
                Ok(b04) => {
                    obs.class("written-by-047");
                    if b04 == bytes {
                        obs.add("byte_identical_to_047", 1);
                    }
                    let reader = rd::open(&b04)?;
                    ensure!(reader.file_version() == grenad::FileVersion::FormatV2, "c09:047-file:version", "version {:?}", reader.file_version());
                    ensure!(reader.len() == n as u64, "c09:047-file:len", "len {} want {}", reader.len(), n);
                    ensure!(Codec::of_g5(reader.compression_type()) == spec.conf.codec, "c09:047-file:codec", "codec {:?}", reader.compression_type());
                    let mut c = rd::guard("into_cursor", || reader.clone().into_cursor())?;
                    let fwd = rd::scan_fwd(&mut c, n + 2)?;
                    if let Some(diff) = rd::first_diff(&fwd, &entries) {
                        fail!("c09:047-file:forward", "current reader on a 0.4.7 file, forward: {}", diff);
                    }
                    let mut c = rd::guard("into_cursor", || reader.clone().into_cursor())?;
                    let bwd = rd::scan_bwd(&mut c, n + 2)?;
                    let mut rev = entries.clone();
                    rev.reverse();
                    if let Some(diff) = rd::first_diff(&bwd, &rev) {
                        fail!("c09:047-file:backward", "current reader on a 0.4.7 file, backward: {}", diff);
                    }
                    let m = Model::new(&entries);
                    let (qs, _) = probe_set(&entries, &case.picks, &case.probes);
                    let mut long_lived = rd::guard("into_cursor", || reader.clone().into_cursor())?;
                    let mut mk = || rd::guard("into_cursor", || reader.clone().into_cursor());
                    for q in &qs {
                        check_seeks(&mut mk, &mut long_lived, &m, &entries, q, "c09:047-file:seek")?;
                    }
                    obs.add("seeks_on_047_files", qs.len() as u64 * 6);
                }
                Err(e) => {
                    // the frozen writer refusing valid input is not this tree's problem; count it
                    obs.add("047_writer_failed", 1);
                    obs.class(format!("047-writer-failed:{}", e.chars().take(30).collect::<String>()));
                }
            }
        }

        // classification
        obs.class(format!("codec={}", spec.conf.codec.name()));
        let multi = d.multi_block_index_depth().is_some();
        if multi {
            obs.class("multi-block-index-level");
        }
        obs.add("blocks_decoded", d.blocks.len() as u64);
        for n in &d.notes {
            obs.class(format!("layout-note:{n}"));
        }
        obs.nontrivial = n >= 1 && (spec.conf.codec != Codec::None || multi);
        obs.sample = Some(json!({
            "conf": spec.conf.label(), "entries": n, "file_bytes": bytes.len(), "blocks_per_depth_first8": d.per_depth().into_iter().take(8).collect::<Vec<_>>(),
        }));
        Ok(())
    }
}
