//! C07 — sorter output equals sort-and-merge of all inserts, whatever the configuration.

use std::cell::Cell;
use std::collections::BTreeMap;
use std::io::{Read, Seek};
use std::rc::Rc;

use proptest::collection::vec;
use proptest::prelude::*;
use serde::{Deserialize, Serialize};
use serde_json::json;

use crate::common::{brief, catch, panic_sig, Blob, Check, Entries, Fail, WConf};
use crate::gen::{self, Tier};
use crate::ioinstr::{self, Creator};
use crate::rd;
use crate::runner::{stage, Obs, Prop, Stage};
use crate::sm::{self, merge_pure, output_ok, record, CreatorKind, MergeKind, SConf, Threshold, MF};
use crate::{ensure, fail};

pub struct C07;

#[derive(Clone, Debug, Hash, PartialEq, Eq, Serialize, Deserialize)]
pub enum InsertSrc {
    List(Vec<(Blob, Blob)>),
    /// `n` inserts, key = BE16((i * mul) % key_mod) padded with `kpad` bytes, value = LE32(i) padded to `vlen`
    Many { n: u32, key_mod: u16, mul: u16, kpad: u8, vlen: u16 },
}

impl InsertSrc {
    pub fn inserts(&self) -> Vec<(Vec<u8>, Vec<u8>)> {
        match self {
            InsertSrc::List(l) => l.iter().map(|(k, v)| (k.bytes(), v.bytes())).collect(),
            InsertSrc::Many { n, key_mod, mul, kpad, vlen } => (0..*n)
                .map(|i| {
                    let kk = ((i as u64 * (*mul as u64 | 1)) % (*key_mod as u64).max(1)) as u16;
                    let mut k = vec![0x2e; *kpad as usize];
                    k.extend_from_slice(&kk.to_be_bytes());
                    let mut v = i.to_le_bytes().to_vec();
                    v.resize((*vlen as usize).max(4), 0x77);
                    (k, v)
                })
                .collect(),
        }
    }
}

#[derive(Clone, Debug, Hash, Serialize, Deserialize)]
pub struct Case {
    pub conf: SConf,
    pub kind: MergeKind,
    pub src: InsertSrc,
    /// values are inserted exactly as generated (no key tag, no record framing for keep-first/keep-last/sum) and the
    /// merge function does not look at its key: the only way to have truly empty values, hence zero-size entries,
    /// with an order-sensitive merge function
    #[serde(default)]
    pub raw: bool,
}

/// keys from a small universe so that duplicates are common
pub fn dup_key() -> BoxedStrategy<Blob> {
    prop_oneof![
        5 => (0u8..12).prop_map(|i| Blob::Lit(vec![b'k', i])),
        2 => gen::key_tiny(),
        2 => gen::key_ascii(),
        1 => Just(Blob::Lit(vec![])),
        1 => (0u8..3, 100u32..400).prop_map(|(i, n)| Blob::Pad { fill: 0x6c, n, tail: vec![i] }),
        1 => gen::key_magic_len(),
        2 => gen::key_path(),
    ]
    .boxed()
}

pub fn ins_val() -> BoxedStrategy<Blob> {
    prop_oneof![
        2 => Just(Blob::Lit(vec![])),
        8 => vec(any::<u8>(), 1..=12).prop_map(Blob::Lit),
        3 => (any::<u8>(), 20u32..300).prop_map(|(fill, n)| Blob::Pad { fill, n, tail: vec![] }),
        1 => (300u32..5000, any::<u64>()).prop_map(|(n, seed)| Blob::Rand { n, seed }),
        1 => gen::val_magic_len(),
        1 => (130_000u32..300_000, any::<u8>()).prop_map(|(n, fill)| Blob::Pad { fill, n, tail: vec![3] }),
        // larger than the whole buffer of most small configurations
        1 => (5000u32..70_000, any::<u8>()).prop_map(|(n, fill)| Blob::Pad { fill, n, tail: vec![9] }),
    ]
    .boxed()
}

pub fn insert_src(tier: Tier) -> BoxedStrategy<InsertSrc> {
    let max = tier.pick(400usize, 3000);
    // degenerate boundary sequences: one to four inserts made of empty keys and empty values
    let tiny_key = prop_oneof![3 => Just(Blob::Lit(vec![])), 1 => Just(Blob::Lit(vec![0])), 1 => Just(Blob::Lit(vec![b'k']))];
    let tiny_val = prop_oneof![3 => Just(Blob::Lit(vec![])), 1 => Just(Blob::Lit(vec![0])), 1 => Just(Blob::Lit(vec![b'v', b'v']))];
    // runs of zero-size entries inside chunks large enough for the real sort algorithms (> 20 entries): entries of
    // size 0 do not advance the buffer's byte offsets, so anything keyed on offsets sees them as "the same" entry
    let zk = prop_oneof![5 => Just(Blob::Lit(vec![])), 2 => Just(Blob::Lit(vec![b'k'])), 1 => (0u8..4).prop_map(|i| Blob::Lit(vec![b'k', i]))];
    let zv = prop_oneof![5 => Just(Blob::Lit(vec![])), 2 => vec(any::<u8>(), 1..=5).prop_map(Blob::Lit), 1 => Just(Blob::Lit(vec![0]))];
    prop_oneof![
        2 => vec((tiny_key, tiny_val), 1..=4).prop_map(InsertSrc::List),
        2 => vec((zk, zv), 21..=90).prop_map(InsertSrc::List),
        3 => vec((dup_key(), ins_val()), 0..=8).prop_map(InsertSrc::List),
        4 => vec((dup_key(), ins_val()), 9..=60).prop_map(InsertSrc::List),
        2 => vec((dup_key(), ins_val()), 61..=max).prop_map(InsertSrc::List),
        3 => (0u32..tier.pick(3000, 12000), prop_oneof![1u16..8, 1u16..200, 1u16..u16::MAX], any::<u16>(), 0u8..20, 4u16..40)
            .prop_map(|(n, key_mod, mul, kpad, vlen)| InsertSrc::Many { n, key_mod, mul, kpad, vlen }),
    ]
    .boxed()
}

// ---------------------------------------------------------------------------------------------
// running a sorter generically over its chunk creator

/// counts `create` calls of any creator
pub struct Counting<CC> {
    pub inner: CC,
    pub n: Rc<Cell<u64>>,
}

impl<CC: grenad::ChunkCreator> grenad::ChunkCreator for Counting<CC> {
    type Chunk = CC::Chunk;
    type Error = CC::Error;
    fn create(&self) -> Result<Self::Chunk, Self::Error> {
        self.n.set(self.n.get() + 1);
        self.inner.create()
    }
}

pub fn serr<T>(what: &str, r: Result<Result<T, grenad::Error<sm::MergeErr>>, String>) -> Check<T> {
    match r {
        Ok(Ok(v)) => Ok(v),
        Ok(Err(e)) => Err(Fail::new(format!("sorter:err:{what}"), format!("{what} failed although no component failed: {:?}", e))),
        Err(p) => Err(Fail::new(format!("sorter:{}", panic_sig(&p)), format!("{what} panicked: {p}"))),
    }
}

pub fn feed<CC: grenad::ChunkCreator>(conf: &SConf, mf: MF, cc: CC, inserts: &[(Vec<u8>, Vec<u8>)]) -> Check<grenad::Sorter<MF, CC>> {
    // `chunk_creator` is one more setter that commutes with the others: for order >= 6 it is called last
    let b = if conf.order >= 6 {
        let mut b0 = grenad::Sorter::builder(mf);
        conf.apply(&mut b0);
        b0.chunk_creator(cc)
    } else {
        let mut b = grenad::Sorter::builder(mf).chunk_creator(cc);
        conf.apply(&mut b);
        b
    };
    let mut s = match catch(|| b.build()) {
        Ok(s) => s,
        Err(p) => return Err(Fail::new(format!("sorter:{}", panic_sig(&p)), format!("SorterBuilder::build panicked: {p}"))),
    };
    for (k, v) in inserts {
        serr("Sorter::insert", catch(|| s.insert(k, v)))?;
    }
    Ok(s)
}

#[derive(Clone, Copy, Debug, PartialEq, Eq)]
pub enum Exit {
    Stream,
    Writer,
    Cursors,
}

pub struct SorterOut {
    pub entries: Entries,
    /// per chunk, the keys it holds (only for the Cursors exit)
    pub chunk_keys: Vec<Vec<Vec<u8>>>,
}

pub fn drain<CC: grenad::ChunkCreator>(s: grenad::Sorter<MF, CC>, exit: Exit, kind: MergeKind, out_conf: &WConf, limit: usize) -> Check<SorterOut>
where
    CC::Chunk: Read + Seek,
{
    match exit {
        Exit::Stream => {
            let mut it = serr("into_stream_merger_iter", catch(|| s.into_stream_merger_iter()))?;
            let mut out = Vec::new();
            loop {
                match serr("MergerIter::next", catch(|| it.next().map(rd::own)))? {
                    Some(e) => out.push(e),
                    None => break,
                }
                ensure!(out.len() <= limit, "sorter:overrun", "the sorter yields more entries than distinct keys");
            }
            Ok(SorterOut { entries: out, chunk_keys: vec![] })
        }
        Exit::Writer => {
            let mut w = out_conf.builder().memory();
            serr("write_into_stream_writer", catch(|| s.write_into_stream_writer(&mut w)))?;
            let bytes = match catch(|| w.into_inner()) {
                Ok(Ok(b)) => b,
                Ok(Err(e)) => fail!("sorter:err:into_inner", "into_inner failed: {e}"),
                Err(p) => fail!(format!("sorter:{}", panic_sig(&p)), "into_inner panicked: {p}"),
            };
            let mut c = rd::cursor(&bytes)?;
            let out = rd::scan_fwd(&mut c, limit)?;
            Ok(SorterOut { entries: out, chunk_keys: vec![] })
        }
        Exit::Cursors => {
            let cursors = serr("into_reader_cursors", catch(|| s.into_reader_cursors()))?;
            let mut per_key: BTreeMap<Vec<u8>, Vec<Vec<u8>>> = BTreeMap::new();
            let mut chunk_keys = Vec::new();
            for mut c in cursors {
                let e = rd::scan_fwd(&mut c, usize::MAX - 1)?;
                for w in e.windows(2) {
                    ensure!(w[0].0 < w[1].0, "sorter:chunk-order", "a chunk cursor yields keys out of order");
                }
                chunk_keys.push(e.iter().map(|x| x.0.clone()).collect());
                for (k, v) in e {
                    per_key.entry(k).or_default().push(v);
                }
            }
            // merged by the harness with the same (pure) function, chunks in the order returned
            let out = per_key.into_iter().map(|(k, vs)| (k, merge_pure(kind, &vs))).collect();
            Ok(SorterOut { entries: out, chunk_keys })
        }
    }
}

/// Feeds three identical sorters and takes the three exits. Returns outputs and the number of `create` calls.
pub fn run_all_exits<CC: grenad::ChunkCreator + Clone>(conf: &SConf, kind: MergeKind, raw: bool, cc: CC, inserts: &[(Vec<u8>, Vec<u8>)], distinct: usize) -> Check<(Vec<SorterOut>, u64)>
where
    CC::Chunk: Read + Seek,
{
    let out_conf = WConf { codec: crate::common::Codec::None, level: 0, block_size: Some(4096), interval: None, levels: 1 };
    let mut outs = Vec::new();
    let mut created = 0;
    for exit in [Exit::Stream, Exit::Writer, Exit::Cursors] {
        let n = Rc::new(Cell::new(0u64));
        let s = feed(conf, if raw { MF::plain(kind) } else { MF::verifying(kind) }, Counting { inner: cc.clone(), n: n.clone() }, inserts)?;
        outs.push(drain(s, exit, kind, &out_conf, distinct + 1)?);
        created = n.get();
    }
    Ok((outs, created))
}

/// What is fed to the sorter: every value is prefixed with a 2-byte tag of its key (so that the merge function can
/// verify its `key` argument); for Concat the tagged value is framed as one self-delimiting record.
pub fn prepared(kind: MergeKind, raw: bool, src: &InsertSrc) -> Vec<(Vec<u8>, Vec<u8>)> {
    model_inserts(kind, raw, src)
        .into_iter()
        .map(|(k, v)| match kind {
            MergeKind::Concat => {
                let r = record(&v);
                (k, r)
            }
            _ => (k, v),
        })
        .collect()
}

/// what the model sees: the tagged values before framing (SumU32 values stay plain numbers)
pub fn model_inserts(kind: MergeKind, untagged: bool, src: &InsertSrc) -> Vec<(Vec<u8>, Vec<u8>)> {
    let raw = src.inserts();
    match kind {
        MergeKind::SumU32 => raw,
        _ if untagged => raw,
        _ => raw.into_iter().map(|(k, v)| { let t = sm::tagged(&k, &v); (k, t) }).collect(),
    }
}

impl Prop for C07 {
    type Case = Case;

    fn id(&self) -> &'static str {
        "C07"
    }

    fn stages(&self, tier: Tier) -> Vec<Stage<Case>> {
        let small = (sm::sconf_small(), prop::sample::select(&MergeKind::ALL[..]), insert_src(tier), prop::bool::weighted(0.35)).prop_map(|(conf, kind, src, raw)| Case { conf, kind, src, raw });
        // parallel sort with > 5000 buffered entries (below that rayon sorts sequentially)
        let par = (sm::sconf_small(), prop::sample::select(&MergeKind::ALL[..]), 5500u32..tier.pick(9000, 30000), 1u16..3000, any::<u16>(), any::<bool>())
            .prop_map(|(mut conf, kind, n, key_mod, mul, big)| {
                conf.threshold = Threshold::Exact(if big { 1 << 20 } else { 300_000 });
                conf.init_cap = Some(1 << 19);
                conf.parallel = true;
                conf.creator = CreatorKind::CursorVec;
                Case { conf, kind, src: InsertSrc::Many { n, key_mod, mul, kpad: 0, vlen: 4 }, raw: false }
            });
        // the public API without hooks: real 10 MiB clamp, default capacities
        let public = (prop::sample::select(&MergeKind::ALL[..]), insert_src(tier), any::<bool>(), any::<bool>(), prop::sample::select(vec![1usize, 2, 25]), 0u8..12, prop::bool::weighted(0.35)).prop_map(
            |(kind, src, allow_realloc, stable, max_nb_chunks, order, raw)| Case {
                raw,
                conf: SConf {
                    threshold: Threshold::Default,
                    init_cap: None,
                    allow_realloc: allow_realloc || true,
                    max_nb_chunks,
                    stable,
                    parallel: false,
                    chunk_codec: None,
                    chunk_level: None,
                    block_size: None,
                    interval: None,
                    levels: None,
                    creator: CreatorKind::CursorVec,
                    order,
                },
                kind,
                src,
            },
        );
        // more simultaneously existing chunks than fit in 8 / 16 bits: every insert spills (entry > budget/2), a few keys
        // recur in distant chunks; the final merge has tens of thousands of sources
        let many_chunks = (prop::sample::select(vec![300u32, 65_540, 66_000]), 2u16..6, prop::sample::select(vec![MergeKind::Concat, MergeKind::First, MergeKind::Last]), any::<bool>())
            .prop_map(|(n, key_mod, kind, stable)| Case {
                raw: false,
                conf: SConf {
                    threshold: Threshold::Exact(256),
                    init_cap: Some(256),
                    allow_realloc: false,
                    max_nb_chunks: 1_000_000,
                    stable,
                    parallel: false,
                    chunk_codec: None,
                    chunk_level: None,
                    block_size: None,
                    interval: None,
                    levels: None,
                    creator: CreatorKind::CursorVec,
                    order: 0,
                },
                kind,
                src: InsertSrc::Many { n, key_mod, mul: 1, kpad: 0, vlen: 160 },
            });
        vec![
            stage("many-chunks", many_chunks, tier.pick(16, 96)).shrink(4),
            stage("small-budget", small, tier.pick(8000, 120_000)).shrink(400),
            stage("parallel-large", par, tier.pick(96, 2000)).shrink(30),
            stage("public-api", public, tier.pick(600, 8000)).shrink(200),
        ]
    }

    fn rule(&self) -> String {
        "case = insert sequence (keys from a small universe, so duplicates are common; value sizes 0..70 kB, some larger than \
         the whole buffer) x sorter configuration (hooked budgets 256 B..64 KiB, initial capacity, realloc on/off, \
         max_nb_chunks in {1,2,3,5,25}, stable/unstable, sequential/parallel, chunk codec/level/block/interval/levels, chunk \
         creator CursorVec/TempFile/instrumented) x merge function (record concatenation, keep-first, keep-last, u32 sum). \
         Oracle: all three exits (stream, write_into_stream_writer + read back, into_reader_cursors merged by the harness) \
         on three identically fed sorters give identical content = strictly ascending distinct inserted keys, each value = \
         merge of that key's inserted values (insertion order if stable, permutation if unstable). non-trivial = >=2 chunks \
         at the end and a key present in >=2 chunks; distinct = hash(case)"
            .into()
    }

    fn assumptions(&self) -> Vec<String> {
        vec!["rayon's schedule is not controlled: the oracle holds under every schedule, schedules are sampled by running on 16 cores".into()]
    }

    fn health(&self, tier: Tier) -> Vec<(&'static str, u64)> {
        vec![
            ("sorter:nontrivial", tier.pick(300, 9000)),
            ("sorter:chunk-merge", tier.pick(200, 6000)),
            ("sorter:entry>budget", tier.pick(50, 1500)),
            ("sorter:parallel>5000", tier.pick(30, 600)),
            ("sorter:zero-size-run>20", tier.pick(40, 600)),
        ]
    }

    fn fuzz_targets(&self) -> Vec<(&'static str, u64)> {
        vec![("fuzz_sorter", 5_000)]
    }

    fn extra(&self, tier: Tier, _seed: u64, ctx: &crate::runner::ExtraCtx) -> crate::runner::ExtraOut {
        small_scope(tier, ctx.threads)
    }

    fn run(&self, case: &Case, obs: &mut Obs) -> Check {
        let inserts = prepared(case.kind, case.raw, &case.src);
        let model_in = model_inserts(case.kind, case.raw, &case.src);
        let distinct = sm::group(&inserts).len();
        let (outs, created) = match case.conf.creator {
            CreatorKind::CursorVec => run_all_exits(&case.conf, case.kind, case.raw, grenad::CursorVec, &inserts, distinct)?,
            CreatorKind::TempFile => run_all_exits(&case.conf, case.kind, case.raw, grenad::TempFileChunk, &inserts, distinct)?,
            CreatorKind::Instrumented => run_all_exits(&case.conf, case.kind, case.raw, Creator { ctl: ioinstr::ctl() }, &inserts, distinct)?,
            CreatorKind::InstrumentedReentrant => {
                let ctl = ioinstr::ctl();
                ctl.borrow_mut().reentrant = true;
                run_all_exits(&case.conf, case.kind, case.raw, Creator { ctl }, &inserts, distinct)?
            }
            CreatorKind::InstrumentedStaging => {
                let ctl = ioinstr::ctl();
                ctl.borrow_mut().staging = true;
                run_all_exits(&case.conf, case.kind, case.raw, Creator { ctl }, &inserts, distinct)?
            }
        };
        for (o, name) in outs.iter().zip(["stream", "writer", "cursors"]) {
            if let Err(e) = output_ok(case.kind, case.conf.stable, &model_in, &o.entries) {
                fail!(format!("c07:{name}"), "{} exit, {}: {}", name, case.conf.label(), e);
            }
        }
        // identical content across exits (unstable keep-first/last/concat may legitimately differ in order: compare
        // only where the result is determined)
        let determined = case.conf.stable || case.kind == MergeKind::SumU32;
        if determined {
            if let Some(d) = rd::first_diff(&outs[1].entries, &outs[0].entries) {
                fail!("c07:exits-differ", "write_into_stream_writer and streaming disagree: {}", d);
            }
            if let Some(d) = rd::first_diff(&outs[2].entries, &outs[0].entries) {
                fail!("c07:exits-differ", "merging the returned chunk cursors and streaming disagree: {}", d);
            }
        } else {
            let keys = |o: &crate::props::c07::SorterOut| o.entries.iter().map(|e| e.0.clone()).collect::<Vec<_>>();
            ensure!(keys(&outs[1]) == keys(&outs[0]) && keys(&outs[2]) == keys(&outs[0]), "c07:exits-differ", "the three exits disagree on the key set");
        }
        // classification
        let chunks = &outs[2].chunk_keys;
        let mut seen: BTreeMap<&Vec<u8>, usize> = BTreeMap::new();
        for c in chunks {
            for k in c {
                *seen.entry(k).or_insert(0) += 1;
            }
        }
        let shared = seen.values().any(|n| *n >= 2);
        let nt = chunks.len() >= 2 && shared;
        if nt {
            obs.class("sorter:nontrivial");
        }
        if created as usize > chunks.len() {
            obs.class("sorter:chunk-merge");
        }
        let budget = case.conf.effective_budget();
        if inserts.iter().any(|(k, v)| k.len() + v.len() > budget) {
            obs.class("sorter:entry>budget");
        }
        if case.conf.parallel && inserts.len() > 5000 && budget / 32 > 5000 {
            obs.class("sorter:parallel>5000");
        }
        obs.class(format!("sorter:{:?}", case.conf.creator));
        obs.class(format!("sorter:{:?}", case.kind));
        obs.class(if case.conf.stable { "sorter:stable" } else { "sorter:unstable" });
        if case.raw {
            obs.class("sorter:raw-values");
            if case.conf.stable && case.kind != MergeKind::SumU32 && inserts.len() > 20 && inserts.windows(2).any(|w| w[0].0.is_empty() && w[1].0.is_empty() && w[1].1.is_empty()) {
                obs.class("sorter:zero-size-run>20");
            }
        }
        obs.add("inserts", inserts.len() as u64);
        obs.add("chunks_created", created);
        obs.nontrivial = nt;
        obs.sample = Some(json!({"conf": case.conf.label(), "kind": format!("{:?}", case.kind), "inserts": inserts.len(), "distinct_keys": distinct,
            "create_calls": created, "final_chunks": chunks.len(), "first_keys": inserts.iter().take(4).map(|e| brief(&e.0)).collect::<Vec<_>>()}));
        Ok(())
    }
}

/// Bounded-exhaustive: EVERY insert sequence of length <= L over the keys {"", "a", "b"} (values numbered by position),
/// for every spill rhythm (a 256-byte budget without reallocation and values sized so that the buffer holds exactly
/// 1, 2, 3 or all entries, plus truly empty values, inserted untagged: zero-size entries), every chunk limit in {1, 2, 3}, both sort algorithms and every merge function; all three
/// exits are taken and judged by the same oracle as the generated cases.
pub fn small_scope(tier: Tier, threads: usize) -> crate::runner::ExtraOut {
    use std::sync::atomic::{AtomicU64, Ordering};
    let keys: [&[u8]; 3] = [b"", b"a", b"b"];
    let max_len = tier.pick(7usize, 9);
    // entry cost in the buffer = key + value + 16 bytes of bounds: 256-byte buffer holds 1 / 2 / 3 / all entries
    let vlens = [130u32, 68, 48, 2, 0];
    let mut total = 0u64;
    for l in 0..=max_len {
        total += 3u64.pow(l as u32);
    }
    let next = AtomicU64::new(0);
    let done = AtomicU64::new(0);
    let nontrivial = AtomicU64::new(0);
    let failure: std::sync::Mutex<Option<(Fail, serde_json::Value)>> = std::sync::Mutex::new(None);
    std::thread::scope(|s| {
        for _ in 0..threads.max(1) {
            s.spawn(|| loop {
                let i = next.fetch_add(1, Ordering::Relaxed);
                if i >= total || failure.lock().unwrap().is_some() {
                    break;
                }
                let mut rem = i;
                let mut len = 0usize;
                loop {
                    let c = 3u64.pow(len as u32);
                    if rem < c {
                        break;
                    }
                    rem -= c;
                    len += 1;
                }
                let mut digits = Vec::with_capacity(len);
                for _ in 0..len {
                    digits.push((rem % 3) as usize);
                    rem /= 3;
                }
                for vlen in vlens {
                    let list: Vec<(Blob, Blob)> =
                        digits.iter().enumerate().map(|(j, d)| (Blob::Lit(keys[*d].to_vec()), if vlen == 0 { Blob::Lit(vec![]) } else { Blob::Pad { fill: 0x5a, n: vlen - 1, tail: vec![j as u8] } })).collect();
                    for max_nb_chunks in [1usize, 2, 3] {
                        for stable in [true, false] {
                            for kind in MergeKind::ALL {
                                let case = Case {
                                    raw: vlen == 0,
                                    conf: SConf {
                                        threshold: Threshold::Exact(256),
                                        init_cap: Some(256),
                                        allow_realloc: false,
                                        max_nb_chunks,
                                        stable,
                                        parallel: false,
                                        chunk_codec: None,
                                        chunk_level: None,
                                        block_size: None,
                                        interval: None,
                                        levels: None,
                                        creator: CreatorKind::CursorVec,
                                        order: 0,
                                    },
                                    kind,
                                    src: InsertSrc::List(list.clone()),
                                };
                                let mut obs = Obs::default();
                                let r = catch(|| C07.run(&case, &mut obs)).unwrap_or_else(|p| Err(Fail::new("c07:harness-panic", p)));
                                done.fetch_add(1, Ordering::Relaxed);
                                if obs.nontrivial {
                                    nontrivial.fetch_add(1, Ordering::Relaxed);
                                }
                                if let Err(f) = r {
                                    let mut g = failure.lock().unwrap();
                                    if g.is_none() {
                                        let ks: Vec<String> = digits.iter().map(|d| brief(keys[*d])).collect();
                                        *g = Some((
                                            Fail::new(
                                                format!("{}:small-scope", f.signature),
                                                format!("insert sequence [{}] with {}-byte values, max_nb_chunks {}, stable {}, {:?}: {}", ks.join(", "), vlen, max_nb_chunks, stable, kind, f.msg),
                                            ),
                                            serde_json::to_value(&case).unwrap_or_default(),
                                        ));
                                    }
                                    return;
                                }
                            }
                        }
                    }
                }
            });
        }
    });
    let mut out = crate::runner::ExtraOut::default();
    let d = done.into_inner();
    out.evaluations = d;
    out.nontrivial = nontrivial.into_inner();
    out.counters.insert("small_scope_sorters".into(), d);
    out.samples.push(json!({"kind": "small-scope", "keys": ["", "a", "b"], "max_len": max_len, "sequences": total, "value_lengths": vlens,
        "max_nb_chunks": [1, 2, 3], "sort": ["stable", "unstable"], "merge_functions": MergeKind::ALL.len(), "cases": d}));
    if let Some(f) = failure.into_inner().unwrap() {
        out.violations.push(f);
    }
    out
}
