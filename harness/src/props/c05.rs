//! C05 — prefix iterators yield exactly the entries sharing the prefix, in order.

use proptest::collection::vec;
use proptest::prelude::*;
use serde::{Deserialize, Serialize};
use serde_json::json;

use crate::common::{brief, hash_of, pick, write_file, Check, Entries, FileSpec};
use crate::gen::{self, Tier};
use crate::props::c01::layout_classes;
use crate::rd;
use crate::runner::{stage, Obs, Prop, Stage};
use crate::fail;

pub struct C05;

#[derive(Clone, Debug, Hash, PartialEq, Eq, Serialize, Deserialize)]
pub enum PrefixSpec {
    Empty,
    /// the first `len/256` of the i-th stored key
    PrefixOf(u16, u8),
    Key(u16),
    /// stored key followed by one byte
    KeyPlus(u16, u8),
    /// `n` bytes of FF
    AllFF(u8),
    /// prefix of a stored key followed by FF bytes
    EndsFF(u16, u8, u8),
    /// a prefix whose successor string is the i-th stored key: key with its last byte decremented,
    /// followed by `nff` FF bytes
    PredOf(u16, u8),
    Lit(crate::common::Blob),
}

impl PrefixSpec {
    pub fn bytes(&self, e: &Entries) -> Vec<u8> {
        let key = |i: u16| if e.is_empty() { Vec::new() } else { e[pick(i, e.len())].0.clone() };
        match self {
            PrefixSpec::Empty => vec![],
            PrefixSpec::PrefixOf(i, l) => {
                let k = key(*i);
                let n = ((*l as usize) * (k.len() + 1)) >> 8;
                k[..n.min(k.len())].to_vec()
            }
            PrefixSpec::Key(i) => key(*i),
            PrefixSpec::KeyPlus(i, b) => {
                let mut k = key(*i);
                k.push(*b);
                k
            }
            PrefixSpec::AllFF(n) => vec![0xFF; *n as usize],
            PrefixSpec::EndsFF(i, l, n) => {
                let k = key(*i);
                let cut = ((*l as usize) * (k.len() + 1)) >> 8;
                let mut v = k[..cut.min(k.len())].to_vec();
                v.extend(std::iter::repeat(0xFF).take(*n as usize));
                v
            }
            PrefixSpec::PredOf(i, nff) => {
                let k = key(*i);
                match k.split_last() {
                    Some((&last, head)) if last > 0 => {
                        let mut v = head.to_vec();
                        v.push(last - 1);
                        v.extend(std::iter::repeat(0xFF).take(*nff as usize));
                        v
                    }
                    _ => k,
                }
            }
            PrefixSpec::Lit(b) => b.bytes(),
        }
    }
}

pub fn prefix_strategy() -> BoxedStrategy<PrefixSpec> {
    prop_oneof![
        2 => Just(PrefixSpec::Empty),
        6 => (any::<u16>(), any::<u8>()).prop_map(|(i, l)| PrefixSpec::PrefixOf(i, l)),
        3 => any::<u16>().prop_map(PrefixSpec::Key),
        2 => (any::<u16>(), prop_oneof![Just(0u8), Just(0xffu8), any::<u8>()]).prop_map(|(i, b)| PrefixSpec::KeyPlus(i, b)),
        2 => (0u8..8).prop_map(PrefixSpec::AllFF),
        3 => (any::<u16>(), any::<u8>(), 1u8..4).prop_map(|(i, l, n)| PrefixSpec::EndsFF(i, l, n)),
        4 => (any::<u16>(), 0u8..4).prop_map(|(i, n)| PrefixSpec::PredOf(i, n)),
        2 => gen::key_any().prop_map(PrefixSpec::Lit),
    ]
    .boxed()
}

#[derive(Clone, Debug, Hash, Serialize, Deserialize)]
pub struct Case {
    pub spec: FileSpec,
    pub prefixes: Vec<PrefixSpec>,
}

/// independent successor: the smallest string greater than every string having the prefix
fn successor(p: &[u8]) -> Option<Vec<u8>> {
    let mut v = p.to_vec();
    while let Some(l) = v.pop() {
        if l != 0xFF {
            v.push(l + 1);
            return Some(v);
        }
    }
    None
}

pub fn check_prefix<R: std::io::Read + std::io::Seek + Clone>(
    reader: &grenad::Reader<R>,
    entries: &Entries,
    p: &[u8],
    sigp: &str,
) -> Check<Entries> {
    let want: Entries = entries.iter().filter(|(k, _)| k.starts_with(p)).cloned().collect();
    let mut it = rd::guard("into_prefix_iter", || reader.clone().into_prefix_iter(p.to_vec()))?;
    let mut got = Vec::new();
    while let Some(e) = rd::guard("PrefixIter::next", || it.next().map(rd::own))? {
        got.push(e);
        if got.len() > entries.len() + 1 {
            break;
        }
    }
    if let Some(d) = rd::first_diff(&got, &want) {
        fail!(format!("{sigp}:fwd"), "forward prefix {} over {} entries: {}", brief(p), entries.len(), d);
    }
    let mut it = rd::guard("into_rev_prefix_iter", || reader.clone().into_rev_prefix_iter(p.to_vec()))?;
    let mut got = Vec::new();
    while let Some(e) = rd::guard("RevPrefixIter::next", || it.next().map(rd::own))? {
        got.push(e);
        if got.len() > entries.len() + 1 {
            break;
        }
    }
    let mut rev = want.clone();
    rev.reverse();
    if let Some(d) = rd::first_diff(&got, &rev) {
        fail!(format!("{sigp}:rev"), "reverse prefix {} over {} entries: {}", brief(p), entries.len(), d);
    }
    // a clone taken mid-iteration and kept alive
    if want.len() >= 2 {
        let mut it = rd::guard("into_prefix_iter", || reader.clone().into_prefix_iter(p.to_vec()))?;
        let _ = rd::guard("PrefixIter::next", || it.next().map(rd::own))?;
        let mut cl = it.clone();
        let (mut a, mut b) = (vec![], vec![]);
        while let Some(e) = rd::guard("PrefixIter::next", || it.next().map(rd::own))? {
            a.push(e);
            if a.len() > entries.len() {
                break;
            }
        }
        while let Some(e) = rd::guard("PrefixIter::next", || cl.next().map(rd::own))? {
            b.push(e);
            if b.len() > entries.len() {
                break;
            }
        }
        if a != want[1..] || b != want[1..] {
            fail!(format!("{sigp}:clone"), "prefix {}: after cloning the iterator mid-way the original yields {} more entries and the clone {} (expected {})", brief(p), a.len(), b.len(), want.len() - 1);
        }
        let mut it = rd::guard("into_rev_prefix_iter", || reader.clone().into_rev_prefix_iter(p.to_vec()))?;
        let _ = rd::guard("RevPrefixIter::next", || it.next().map(rd::own))?;
        let mut cl = it.clone();
        let (mut a, mut b) = (vec![], vec![]);
        while let Some(e) = rd::guard("RevPrefixIter::next", || it.next().map(rd::own))? {
            a.push(e);
            if a.len() > entries.len() {
                break;
            }
        }
        while let Some(e) = rd::guard("RevPrefixIter::next", || cl.next().map(rd::own))? {
            b.push(e);
            if b.len() > entries.len() {
                break;
            }
        }
        if a != rev[1..] || b != rev[1..] {
            fail!(format!("{sigp}:clone"), "reverse prefix {}: after cloning the iterator mid-way the original yields {} more entries and the clone {} (expected {})", brief(p), a.len(), b.len(), rev.len() - 1);
        }
    }
    Ok(want)
}

/// One data block of more than 4 GiB: two 2 GiB values followed by ten small entries whose in-block offsets lie beyond
/// 2^32. Prefix iteration (both directions) must still find them. Ok(false) = skipped (less than 30 GiB free).
pub fn giant_block() -> Check<bool> {
    let avail_kib: u64 = std::fs::read_to_string("/proc/meminfo")
        .ok()
        .and_then(|s| s.lines().find(|l| l.starts_with("MemAvailable:")).and_then(|l| l.split_whitespace().nth(1).and_then(|v| v.parse().ok())))
        .unwrap_or(0);
    if avail_kib < 30 * 1024 * 1024 {
        return Ok(false);
    }
    let r = crate::common::catch(|| -> Check<()> {
        let big = vec![0x5au8; 1usize << 31];
        let mut w = grenad::Writer::builder();
        w.block_size(6usize << 30);
        let mut w = w.memory();
        let mut small: Entries = Vec::new();
        let io = |e: std::io::Error| crate::common::Fail::new("c05:giant:io", format!("writer error: {e}"));
        w.insert(b"a", &big).map_err(io)?;
        w.insert(b"b", &big).map_err(io)?;
        for i in 0..10u8 {
            let k = vec![b'c', b'0' + i];
            let v = vec![i; 3];
            w.insert(&k, &v).map_err(io)?;
            small.push((k, v));
        }
        drop(big);
        let bytes = w.into_inner().map_err(io)?;
        let reader = rd::open(&bytes)?;
        // the model only needs the small entries: the two giants match none of the prefixes below
        let mut model: Entries = vec![(b"a".to_vec(), vec![]), (b"b".to_vec(), vec![])];
        model.extend(small.iter().cloned());
        for p in [&b"c"[..], &b"c1"[..], &b"c9"[..], &b"d"[..]] {
            check_prefix(&reader, &model, p, "c05:giant")?;
        }
        Ok(())
    });
    match r {
        Ok(Ok(())) => Ok(true),
        Ok(Err(f)) => Err(f),
        Err(p) => Err(crate::common::Fail::new("c05:giant:panic", format!("block larger than 4 GiB: panic {p}"))),
    }
}

impl Prop for C05 {
    type Case = Case;

    fn id(&self) -> &'static str {
        "C05"
    }

    fn stages(&self, tier: Tier) -> Vec<Stage<Case>> {
        let k = tier.pick(40, 60);
        // alphabet-heavy key styles: dense prefix relations and FF runs
        let src = prop_oneof![
            4 => gen::list_src(gen::key_tiny(), gen::val_small(), 200),
            3 => gen::list_src(gen::key_ascii(), gen::val_any(3000), tier.pick(600, 3000)),
            1 => gen::entry_src(tier),
        ];
        let s = (gen::wconf_light(), src, vec(prefix_strategy(), k))
            .prop_map(|(conf, src, prefixes)| Case { spec: FileSpec { conf, src }, prefixes });
        vec![stage("files", s, tier.pick(6000, 60_000)).shrink(800)]
    }

    fn rule(&self) -> String {
        "case = file (tiny-alphabet and ASCII keys: dense prefix relations, FF runs) x list of prefixes (empty, prefixes of \
         stored keys, stored keys, key+byte, all-FF, ending in FF, prefixes whose successor string is stored, unrelated); \
         non-trivial prefix = empty prefix, or all-FF prefix, or successor string stored, or >=2 matches across a data-block \
         boundary, or zero matches with the prefix inside the key span; distinct = hash(file, prefix)"
            .into()
    }

    fn health(&self, tier: Tier) -> Vec<(&'static str, u64)> {
        let m = tier.pick(1, 20);
        vec![
            ("prefix:successor-stored", 300 * m),
            ("prefix:all-ff", 300 * m),
            ("prefix:ends-ff", 300 * m),
            ("prefix:spans-blocks", 200 * m),
            ("prefix:none-inside-span", 300 * m),
        ]
    }

    fn extra(&self, tier: Tier, _seed: u64, ctx: &crate::runner::ExtraCtx) -> crate::runner::ExtraOut {
        // bounded-exhaustive enumeration: every key set over a tiny alphabet x every probe over it
        let mut out = crate::smallscope::prefixes(tier, ctx.threads);
        // thorough: one block larger than 4 GiB (in-block offsets beyond 2^32), when memory allows
        if tier == Tier::Thorough && out.violations.is_empty() && std::env::var("VERIF_NO_GIANT").is_err() {
            match giant_block() {
                Ok(true) => {
                    out.evaluations += 4;
                    out.nontrivial += 4;
                    out.counters.insert("giant_block_checked".into(), 1);
                    out.samples.push(json!({"kind": "giant-block", "block_bytes": "> 4 GiB", "prefixes": ["c", "c1", "b", ""]}));
                }
                Ok(false) => {
                    out.counters.insert("giant_block_skipped_low_memory".into(), 1);
                }
                Err(f) => out.violations.push((f, json!("GiantBlock"))),
            }
        }
        out
    }

    fn run(&self, case: &Case, obs: &mut Obs) -> Check {
        let entries = case.spec.src.entries();
        let bytes = write_file(&case.spec.conf, &entries)?;
        let reader = rd::open(&bytes)?;
        let d = layout_classes(&case.spec, &bytes, entries.len(), obs);
        let fh = hash_of(&case.spec);
        let mut classes: Vec<&'static str> = Vec::new();
        for ps in &case.prefixes {
            let p = ps.bytes(&entries);
            let want = check_prefix(&reader, &entries, &p, "c05")?;
            let mut nt = false;
            if p.is_empty() {
                classes.push("prefix:empty");
                nt = true;
            }
            if !p.is_empty() && p.iter().all(|b| *b == 0xFF) {
                classes.push("prefix:all-ff");
                nt = true;
            }
            if p.last() == Some(&0xFF) {
                classes.push("prefix:ends-ff");
            }
            if let Some(s) = successor(&p) {
                if entries.binary_search_by(|(k, _)| k.cmp(&s)).is_ok() {
                    classes.push("prefix:successor-stored");
                    nt = true;
                }
            }
            if want.len() >= 2 {
                if let Some(d) = d.as_ref() {
                    let bi = |k: &Vec<u8>| entries.binary_search_by(|(x, _)| x.cmp(k)).ok().map(|i| d.entry_block.get(i).copied());
                    if bi(&want[0].0) != bi(&want[want.len() - 1].0) {
                        classes.push("prefix:spans-blocks");
                        nt = true;
                    }
                }
            }
            if want.is_empty() && !entries.is_empty() && p > entries[0].0 && p < entries[entries.len() - 1].0 {
                classes.push("prefix:none-inside-span");
                nt = true;
            }
            if nt {
                obs.sub_nontrivial.push(hash_of(&(fh, &p)));
            }
        }
        for c in classes {
            obs.class(c);
        }
        obs.add("prefix_queries", case.prefixes.len() as u64 * 2);
        obs.nontrivial = !obs.sub_nontrivial.is_empty();
        obs.sample = Some(json!({
            "conf": case.spec.conf.label(), "entries": entries.len(),
            "prefixes": case.prefixes.iter().take(4).map(|p| brief(&p.bytes(&entries))).collect::<Vec<_>>(),
        }));
        Ok(())
    }
}
