//! Checking global allocator (C17): guard bands, layout table, double-free detection, minimal alignment,
//! per-thread live counts. Tracking is enabled per thread around grenad calls; everything else passes through.

use std::alloc::{GlobalAlloc, Layout, System};
use std::cell::{Cell, RefCell};
use std::collections::HashMap;
use std::sync::atomic::{AtomicI64, Ordering};
use std::sync::Mutex;

pub struct Checking;

const BAND: usize = 32;
const CANARY: u8 = 0xC5;
const FRESH: u8 = 0xA5;
const FREED: u8 = 0xDD;
const SHARDS: usize = 64;

#[derive(Clone, Copy)]
struct Rec {
    base: usize,
    under: Layout,
    req: Layout,
    band: usize,
    owner: u64,
}

struct Shard {
    live: Option<HashMap<usize, Rec>>,
    freed: Option<HashMap<usize, Layout>>,
}

static TABLE: [Mutex<Shard>; SHARDS] = [const { Mutex::new(Shard { live: None, freed: None }) }; SHARDS];
static TRACKED_LIVE: AtomicI64 = AtomicI64::new(0);

thread_local! {
    static TRACK: Cell<bool> = const { Cell::new(false) };
    static INSIDE: Cell<bool> = const { Cell::new(false) };
    static THREAD_ID: Cell<u64> = const { Cell::new(0) };
    static LIVE_BYTES: Cell<i64> = const { Cell::new(0) };
    static LIVE_BLOCKS: Cell<i64> = const { Cell::new(0) };
    static PEAK_BYTES: Cell<i64> = const { Cell::new(0) };
    static N_ALLOCS: Cell<u64> = const { Cell::new(0) };
    static VIOLATIONS: RefCell<Vec<String>> = const { RefCell::new(Vec::new()) };
}

static NEXT_THREAD: std::sync::atomic::AtomicU64 = std::sync::atomic::AtomicU64::new(1);

fn thread_id() -> u64 {
    THREAD_ID.with(|t| {
        if t.get() == 0 {
            t.set(NEXT_THREAD.fetch_add(1, Ordering::Relaxed));
        }
        t.get()
    })
}

fn shard(addr: usize) -> &'static Mutex<Shard> {
    &TABLE[(addr >> 4) % SHARDS]
}

fn report(msg: String) {
    VIOLATIONS.with(|v| v.borrow_mut().push(msg));
}

struct Reentrant(bool);
impl Reentrant {
    fn enter() -> Option<Reentrant> {
        INSIDE.with(|i| {
            if i.get() {
                None
            } else {
                i.set(true);
                Some(Reentrant(true))
            }
        })
    }
}
impl Drop for Reentrant {
    fn drop(&mut self) {
        if self.0 {
            INSIDE.with(|i| i.set(false));
        }
    }
}

unsafe impl GlobalAlloc for Checking {
    unsafe fn alloc(&self, layout: Layout) -> *mut u8 {
        let tracking = TRACK.try_with(|t| t.get()).unwrap_or(false);
        if !tracking {
            return System.alloc(layout);
        }
        let Some(_g) = Reentrant::enter() else { return System.alloc(layout) };
        if layout.size() == 0 {
            report(format!("zero-sized allocation requested (align {}) — undefined behaviour for GlobalAlloc::alloc", layout.align()));
            return System.alloc(Layout::from_size_align_unchecked(1, layout.align()));
        }
        let a = layout.align();
        let band = BAND.max(a);
        // user address: A-aligned but not 2A-aligned (minimal alignment)
        let k = band.div_ceil(2 * a) * (2 * a) + a;
        let total = k + layout.size() + band;
        let under = match Layout::from_size_align(total, 2 * a) {
            Ok(l) => l,
            Err(_) => return std::ptr::null_mut(),
        };
        let base = System.alloc(under);
        if base.is_null() {
            return base;
        }
        let user = base.add(k);
        std::ptr::write_bytes(user.sub(band), CANARY, band);
        std::ptr::write_bytes(user, FRESH, layout.size());
        std::ptr::write_bytes(user.add(layout.size()), CANARY, band);
        let rec = Rec { base: base as usize, under, req: layout, band, owner: thread_id() };
        {
            let mut s = shard(user as usize).lock().unwrap_or_else(|e| e.into_inner());
            s.freed.get_or_insert_with(HashMap::new).remove(&(user as usize));
            s.live.get_or_insert_with(HashMap::new).insert(user as usize, rec);
        }
        TRACKED_LIVE.fetch_add(1, Ordering::Relaxed);
        LIVE_BYTES.with(|b| {
            b.set(b.get() + layout.size() as i64);
            PEAK_BYTES.with(|p| p.set(p.get().max(b.get())));
        });
        LIVE_BLOCKS.with(|b| b.set(b.get() + 1));
        N_ALLOCS.with(|n| n.set(n.get() + 1));
        user
    }

    unsafe fn dealloc(&self, ptr: *mut u8, layout: Layout) {
        if TRACKED_LIVE.load(Ordering::Relaxed) <= 0 && !TRACK.try_with(|t| t.get()).unwrap_or(false) {
            return System.dealloc(ptr, layout);
        }
        let Some(_g) = Reentrant::enter() else { return System.dealloc(ptr, layout) };
        let rec = {
            let mut s = shard(ptr as usize).lock().unwrap_or_else(|e| e.into_inner());
            let r = s.live.as_mut().and_then(|l| l.remove(&(ptr as usize)));
            if r.is_none() {
                if let Some(prev) = s.freed.as_ref().and_then(|f| f.get(&(ptr as usize))) {
                    let prev = *prev;
                    drop(s);
                    report(format!("double free of a block of {} bytes (align {})", prev.size(), prev.align()));
                    return;
                }
            } else if let Some(f) = s.freed.as_mut() {
                if f.len() > 4096 {
                    f.clear();
                }
            }
            if let Some(r) = &r {
                s.freed.get_or_insert_with(HashMap::new).insert(ptr as usize, r.req);
            }
            r
        };
        match rec {
            None => System.dealloc(ptr, layout),
            Some(rec) => {
                TRACKED_LIVE.fetch_sub(1, Ordering::Relaxed);
                if rec.req.size() != layout.size() || rec.req.align() != layout.align() {
                    report(format!(
                        "dealloc with a mismatched layout: allocated size {} align {}, freed with size {} align {}",
                        rec.req.size(),
                        rec.req.align(),
                        layout.size(),
                        layout.align()
                    ));
                }
                let pre = std::slice::from_raw_parts(ptr.sub(rec.band), rec.band);
                let post = std::slice::from_raw_parts(ptr.add(rec.req.size()), rec.band);
                if pre.iter().any(|b| *b != CANARY) {
                    report(format!("write before the start of an allocation of {} bytes (guard band damaged)", rec.req.size()));
                }
                if post.iter().any(|b| *b != CANARY) {
                    report(format!("write past the end of an allocation of {} bytes (guard band damaged)", rec.req.size()));
                }
                std::ptr::write_bytes(ptr, FREED, rec.req.size());
                if rec.owner == thread_id() {
                    LIVE_BYTES.with(|b| b.set(b.get() - rec.req.size() as i64));
                    LIVE_BLOCKS.with(|b| b.set(b.get() - 1));
                }
                System.dealloc(rec.base as *mut u8, rec.under);
            }
        }
    }
}

/// Snapshot of this thread's tracked allocations.
#[derive(Clone, Copy, Debug, PartialEq, Eq)]
pub struct Snapshot {
    pub live_bytes: i64,
    pub live_blocks: i64,
    pub peak_bytes: i64,
    pub allocs: u64,
}

pub fn snapshot() -> Snapshot {
    Snapshot {
        live_bytes: LIVE_BYTES.with(|b| b.get()),
        live_blocks: LIVE_BLOCKS.with(|b| b.get()),
        peak_bytes: PEAK_BYTES.with(|b| b.get()),
        allocs: N_ALLOCS.with(|b| b.get()),
    }
}

pub fn reset_peak() {
    PEAK_BYTES.with(|p| p.set(LIVE_BYTES.with(|b| b.get())));
}

/// Runs `f` with allocation tracking on for this thread.
pub fn tracked<R>(f: impl FnOnce() -> R) -> R {
    struct Off(bool);
    impl Drop for Off {
        fn drop(&mut self) {
            TRACK.with(|t| t.set(self.0));
        }
    }
    let prev = TRACK.with(|t| t.replace(true));
    let _off = Off(prev);
    f()
}

/// Violations recorded by the allocator on this thread since the last call.
pub fn take_violations() -> Vec<String> {
    VIOLATIONS.with(|v| std::mem::take(&mut *v.borrow_mut()))
}

/// Whether the checking allocator is the process's global allocator (false under Miri / fuzz builds).
pub fn installed() -> bool {
    INSTALLED.load(Ordering::Relaxed)
}

static INSTALLED: std::sync::atomic::AtomicBool = std::sync::atomic::AtomicBool::new(false);

pub fn mark_installed() {
    INSTALLED.store(true, Ordering::Relaxed);
}
