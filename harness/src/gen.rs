//! proptest strategies. Every random choice of every check is made here (or by strategies in the
//! property modules), never by an RNG of our own.

use proptest::collection::vec;
use proptest::prelude::*;

use crate::common::{Blob, Codec, EntrySrc, FileSpec, WConf};
use crate::model::{Op, Probe};

#[derive(Clone, Copy, Debug, PartialEq, Eq)]
pub enum Tier {
    Quick,
    Thorough,
}

impl Tier {
    pub fn name(self) -> &'static str {
        match self {
            Tier::Quick => "quick",
            Tier::Thorough => "thorough",
        }
    }
    pub fn pick<T>(self, q: T, t: T) -> T {
        match self {
            Tier::Quick => q,
            Tier::Thorough => t,
        }
    }
}

// ---------------------------------------------------------------------------------------------
// keys

const TINY: [u8; 5] = [0x00, 0x01, 0x7f, 0xfe, 0xff];

pub fn key_tiny() -> BoxedStrategy<Blob> {
    vec(prop::sample::select(&TINY[..]), 0..=4).prop_map(Blob::Lit).boxed()
}

pub fn key_ascii() -> BoxedStrategy<Blob> {
    vec(prop_oneof![Just(b'a'), Just(b'b'), Just(b'c'), b'a'..=b'z', Just(b'/')], 0..=12)
        .prop_map(Blob::Lit)
        .boxed()
}

pub fn key_bytes() -> BoxedStrategy<Blob> {
    vec(any::<u8>(), 0..=10).prop_map(Blob::Lit).boxed()
}

/// long keys sharing a prefix: few entries per 1024-byte block
pub fn key_long() -> BoxedStrategy<Blob> {
    (prop_oneof![Just(0x61u8), Just(0xffu8), Just(0u8)], 100u32..1500, vec(any::<u8>(), 1..=3))
        .prop_map(|(fill, n, tail)| Blob::Pad { fill, n, tail })
        .boxed()
}

/// ~500-byte keys: two per 1024-byte block, which is what makes index levels >= 2 multi-block
pub fn key_half_block() -> BoxedStrategy<Blob> {
    (480u32..520, vec(any::<u8>(), 1..=2))
        .prop_map(|(n, tail)| Blob::Pad { fill: 0x6b, n, tail })
        .boxed()
}

/// lengths sitting on power-of-two / integer-width boundaries
pub const MAGIC_LENS: [u32; 17] = [7, 8, 9, 15, 16, 17, 127, 128, 129, 255, 256, 257, 511, 512, 1023, 1024, 1025];
pub const MAGIC_LENS_BIG: [u32; 9] = [4095, 4096, 4097, 32767, 32768, 65535, 65536, 65537, 131072];

/// keys whose length is exactly a boundary value (distinguished by their tail)
pub fn key_magic_len() -> BoxedStrategy<Blob> {
    (prop::sample::select(&MAGIC_LENS[..]), prop_oneof![Just(0x00u8), Just(0x61u8), Just(0xffu8)], vec(any::<u8>(), 1..=2))
        .prop_map(|(n, fill, tail)| {
            let t = tail.len() as u32;
            Blob::Pad { fill, n: n.saturating_sub(t), tail: tail[..(n.min(t)) as usize].to_vec() }
        })
        .boxed()
}

pub fn val_magic_len() -> BoxedStrategy<Blob> {
    prop_oneof![
        4 => (prop::sample::select(&MAGIC_LENS[..]), any::<u8>()).prop_map(|(n, fill)| Blob::Pad { fill, n, tail: vec![] }),
        2 => (prop::sample::select(&MAGIC_LENS[..]), any::<u64>()).prop_map(|(n, seed)| Blob::Rand { n, seed }),
        1 => (prop::sample::select(&MAGIC_LENS_BIG[..]), any::<u64>()).prop_map(|(n, seed)| Blob::Rand { n, seed }),
        1 => (prop::sample::select(&MAGIC_LENS_BIG[..]), any::<u8>()).prop_map(|(n, fill)| Blob::Pad { fill, n, tail: vec![] }),
    ]
    .boxed()
}

/// keys of 16..40 bytes sharing a prefix of 15..24 bytes and differing in length ("documents/title/abc")
pub fn key_path() -> BoxedStrategy<Blob> {
    (
        prop::sample::select(vec![&b"documents/title/"[..], &b"documents/title/attr"[..], &b"aaaaaaaaaaaaaaa"[..], &b"\xff\xff\xff\xff\xff\xff\xff\xff\xff\xff\xff\xff\xff\xff\xff\xff"[..]]),
        vec(prop_oneof![Just(b'a'), Just(b'b'), Just(b'c'), Just(0u8), Just(0xffu8)], 0..=6),
    )
        .prop_map(|(p, suffix)| {
            let mut v = p.to_vec();
            v.extend(suffix);
            Blob::Lit(v)
        })
        .boxed()
}

pub fn key_any() -> BoxedStrategy<Blob> {
    prop_oneof![
        6 => key_tiny(),
        6 => key_ascii(),
        4 => key_bytes(),
        2 => key_long(),
        1 => key_magic_len(),
        2 => key_path(),
    ]
    .boxed()
}

// ---------------------------------------------------------------------------------------------
// values

pub fn val_small() -> BoxedStrategy<Blob> {
    prop_oneof![
        3 => Just(Blob::Lit(vec![])),
        6 => vec(any::<u8>(), 1..=16).prop_map(Blob::Lit),
        2 => (any::<u8>(), 1u32..40).prop_map(|(fill, n)| Blob::Pad { fill, n, tail: vec![] }),
    ]
    .boxed()
}

pub fn val_any(max_big: u32) -> BoxedStrategy<Blob> {
    // callers that re-run a scenario many times (fault enumeration) pass a small `max_big` and get no huge values
    let small_only = max_big < 6000;
    prop_oneof![
        4 => Just(Blob::Lit(vec![])),
        10 => vec(any::<u8>(), 1..=16).prop_map(Blob::Lit),
        3 => (80u32..130, any::<u64>()).prop_map(|(n, seed)| Blob::Rand { n, seed }),
        3 => (any::<u8>(), 80u32..130).prop_map(|(fill, n)| Blob::Pad { fill, n, tail: vec![] }),
        2 => (900u32..1100, any::<u64>()).prop_map(|(n, seed)| Blob::Rand { n, seed }),
        2 => (any::<u8>(), 900u32..1100).prop_map(|(fill, n)| Blob::Pad { fill, n, tail: vec![1] }),
        1 => (1024u32..max_big.max(1025), any::<u64>()).prop_map(|(n, seed)| Blob::Rand { n, seed }),
        1 => (any::<u8>(), 1024u32..max_big.max(1025)).prop_map(|(fill, n)| Blob::Pad { fill, n, tail: vec![] }),
        1 => (0u16..40, any::<bool>(), 0u8..=6, 0u64..1000)
            .prop_map(|(pad, v2, codec, count)| Blob::Trailer { pad, v2, codec, count }),
        2 => val_magic_len(),
        // beyond the 32/64 KiB windows and frame chunk sizes of the codecs (incompressible and compressible)
        1 => if small_only { Just(Blob::Lit(vec![0x33; 3])).boxed() } else { prop_oneof![
            (60_000u32..200_000, any::<u64>()).prop_map(|(n, seed)| Blob::Rand { n, seed }),
            (any::<u8>(), 60_000u32..200_000).prop_map(|(fill, n)| Blob::Pad { fill, n, tail: vec![7] }),
            // ~4 MB values only in the thorough tier (callers pass max_big >= 20 000 there): a few hundred seeks over a
            // 4 MB compressed block cost a minute
            (any::<u8>(), if max_big >= 20_000 { 4_000_000u32..4_400_000 } else { 250_000u32..400_000 }).prop_map(|(fill, n)| Blob::Pad { fill, n, tail: vec![] }),
        ].boxed() },
    ]
    .boxed()
}

// ---------------------------------------------------------------------------------------------
// writer configuration

pub fn codec() -> BoxedStrategy<Codec> {
    prop::sample::select(&Codec::ALL[..]).boxed()
}

/// compression level inside the codec's documented range (DESIGN 6.3)
pub fn level_for(c: Codec) -> BoxedStrategy<u32> {
    match c {
        Codec::Zlib => (0u32..=9).boxed(),
        // high zstd levels clear >100 MB of tables per block: valid, but kept rare (see `file_spec`)
        Codec::Zstd => prop_oneof![14 => 0u32..=6, 4 => 7u32..=12, 1 => 13u32..=22].boxed(),
        _ => prop_oneof![Just(0u32), any::<u32>()].boxed(),
    }
}

pub fn block_size() -> BoxedStrategy<Option<usize>> {
    prop_oneof![
        2 => Just(None),
        6 => prop::sample::select(vec![0usize, 1, 1023, 1024, 1025, 1500, 4096, 8192, 65536, usize::MAX])
            .prop_map(Some),
        4 => (0usize..20000).prop_map(Some),
        6 => Just(Some(1024)),
    ]
    .boxed()
}

pub fn interval() -> BoxedStrategy<Option<usize>> {
    prop_oneof![
        2 => Just(None),
        6 => prop::sample::select(vec![1usize, 2, 3, 7, 8, 64, usize::MAX]).prop_map(Some),
        3 => (1usize..20).prop_map(Some),
    ]
    .boxed()
}

pub fn levels() -> BoxedStrategy<u8> {
    prop_oneof![
        25 => Just(0u8),
        15 => Just(1u8),
        25 => Just(2u8),
        15 => Just(3u8),
        10 => 4u8..=8,
        3 => Just(254u8),
        3 => Just(255u8),
        4 => any::<u8>(),
    ]
    .boxed()
}

pub fn levels_small(max: u8) -> BoxedStrategy<u8> {
    (0u8..=max).boxed()
}

pub fn wconf_with(levels: BoxedStrategy<u8>) -> BoxedStrategy<WConf> {
    (codec(), block_size(), interval(), levels)
        .prop_flat_map(|(codec, block_size, interval, levels)| {
            level_for(codec).prop_map(move |level| WConf { codec, level, block_size, interval, levels })
        })
        .boxed()
}

pub fn wconf() -> BoxedStrategy<WConf> {
    wconf_with(levels())
}

/// configurations for tests that need cheap files (no 254/255 levels)
pub fn wconf_light() -> BoxedStrategy<WConf> {
    wconf_with(prop_oneof![3 => Just(0u8), 2 => Just(1u8), 3 => Just(2u8), 2 => Just(3u8), 1 => 4u8..=6].boxed())
}

// ---------------------------------------------------------------------------------------------
// entry sources

pub fn list_src(key: BoxedStrategy<Blob>, val: BoxedStrategy<Blob>, max: usize) -> BoxedStrategy<EntrySrc> {
    // a union of size bands (each band shrinks towards its own minimum, the union towards the first
    // band), rather than a flat_map over a length, so that lists shrink in length
    let m = max.max(16);
    let e = (key, val);
    prop_oneof![
        3 => vec(e.clone(), 0..=2),
        4 => vec(e.clone(), 3..=12),
        4 => vec(e.clone(), 13..=(m / 8).max(14)),
        2 => vec(e, (m / 8).max(14)..=m),
    ]
    .prop_map(EntrySrc::List)
    .boxed()
}

pub fn counter_src(max_n: u32) -> BoxedStrategy<EntrySrc> {
    (
        prop_oneof![Just(0u32), any::<u32>(), 0u32..1000],
        prop_oneof![Just(1u32), 1u32..1000, Just(65536u32)],
        prop_oneof![0u32..50, 0u32..=max_n],
        prop_oneof![4 => Just(0u16), 1 => 1u16..40, 1 => 400u16..600],
        any::<u8>(),
        prop_oneof![Just(0u16), Just(4u16), 0u16..64, 0u16..3000],
        0u8..4,
    )
        .prop_map(|(start, stride, n, pad, fill, vlen, vkind)| EntrySrc::Counter {
            start,
            stride,
            n,
            pad,
            fill,
            vlen,
            vkind,
        })
        .boxed()
}

/// The general entry-set generator of DESIGN 4.1.
pub fn entry_src(tier: Tier) -> BoxedStrategy<EntrySrc> {
    let max = tier.pick(600, 5000);
    let big = tier.pick(6000, 20000);
    // joint boundary values: one to three entries made of empty / one-byte keys and values
    let tk = prop_oneof![3 => Just(Blob::Lit(vec![])), 1 => Just(Blob::Lit(vec![0])), 1 => Just(Blob::Lit(vec![0xff]))];
    let tv = prop_oneof![3 => Just(Blob::Lit(vec![])), 1 => Just(Blob::Lit(vec![0]))];
    prop_oneof![
        1 => vec((tk, tv), 1..=3).prop_map(EntrySrc::List),
        3 => list_src(key_tiny(), val_any(big), 200),
        3 => list_src(key_ascii(), val_any(big), max),
        2 => list_src(key_bytes(), val_any(big), max),
        2 => list_src(key_long(), val_small(), 60),
        2 => list_src(key_half_block(), val_small(), 60),
        2 => list_src(key_path(), val_any(big), 200),
        2 => list_src(key_any(), val_any(big), max),
        1 => list_src(key_magic_len(), prop_oneof![val_small(), val_magic_len()].boxed(), 40),
        3 => counter_src(max as u32),
        // entry counts sitting on boundaries (default interval 8, u8/u16 widths)
        1 => (prop::sample::select(vec![7u32, 8, 9, 16, 17, 63, 64, 65, 255, 256, 257, 511, 512, 513]), any::<u32>(), 1u32..9, 0u16..6, any::<u8>(), prop_oneof![Just(0u16), Just(4u16), 0u16..300], 0u8..4)
            .prop_map(|(n, start, stride, pad, fill, vlen, vkind)| EntrySrc::Counter { start: start / 2, stride, n, pad, fill, vlen, vkind }),
    ]
    .boxed()
}

/// small files whose index levels >= 2 hold several blocks (block 1024, ~500-byte keys)
pub fn deep_small_src(max_n: usize) -> BoxedStrategy<EntrySrc> {
    prop_oneof![
        3 => (3usize..=max_n).prop_flat_map(|n| vec((key_half_block(), val_small()), n..=n)).prop_map(EntrySrc::List),
        1 => (3usize..=max_n).prop_flat_map(|n| vec((key_long(), val_small()), n..=n)).prop_map(EntrySrc::List),
    ]
    .boxed()
}

/// zstd above level 6 costs up to tens of milliseconds per block (20 ms at level 12, measured); such configurations only get small
/// files with few index levels so that a case stays bounded
pub fn heavy(c: &WConf) -> bool {
    c.codec == Codec::Zstd && c.level > 6
}

fn small_src() -> BoxedStrategy<EntrySrc> {
    prop_oneof![
        vec((key_any(), val_any(3000)), 0..=12).prop_map(EntrySrc::List),
        vec((key_half_block(), val_small()), 0..=8).prop_map(EntrySrc::List),
    ]
    .boxed()
}

fn spec_from(conf: BoxedStrategy<WConf>, tier: Tier) -> BoxedStrategy<FileSpec> {
    conf.prop_flat_map(move |mut conf| {
        if heavy(&conf) {
            conf.levels = conf.levels.min(3);
            small_src().prop_map(move |src| FileSpec { conf: conf.clone(), src }).boxed()
        } else {
            entry_src(tier).prop_map(move |src| FileSpec { conf: conf.clone(), src }).boxed()
        }
    })
    .boxed()
}

/// entry counts around 2^16, with configurations that put them into very few blocks / very many offset slots
pub fn wide_count_spec() -> BoxedStrategy<FileSpec> {
    (
        prop::sample::select(vec![65_535u32, 65_536, 65_537, 70_001]),
        any::<u32>(),
        prop_oneof![Just(Some(usize::MAX)), Just(None), Just(Some(1024usize))],
        // no huge interval here: stepping backwards inside a block is linear in the interval, a backward scan of one
        // 65 536-entry block without offset slots would take 2^31 steps
        prop_oneof![Just(Some(1usize)), Just(None), Just(Some(64usize))],
        prop_oneof![3 => Just(Codec::None), 1 => Just(Codec::Snappy), 1 => Just(Codec::Lz4)],
        0u8..=2,
    )
        .prop_map(|(n, start, block_size, interval, codec, levels)| FileSpec {
            conf: WConf { codec, level: 0, block_size, interval, levels },
            src: EntrySrc::Counter { start: start / 2, stride: 1, n, pad: 0, fill: 0, vlen: 0, vkind: 0 },
        })
        .boxed()
}

pub fn file_spec(tier: Tier) -> BoxedStrategy<FileSpec> {
    // 1 case in ~150 has 2^16-ish entries
    prop_oneof![150 => spec_from(wconf(), tier), 1 => wide_count_spec()].boxed()
}

pub fn file_spec_light(tier: Tier) -> BoxedStrategy<FileSpec> {
    spec_from(wconf_light(), tier)
}

// ---------------------------------------------------------------------------------------------
// probes and cursor operations

pub fn probe() -> BoxedStrategy<Probe> {
    prop_oneof![
        6 => any::<u16>().prop_map(Probe::Key),
        5 => any::<u16>().prop_map(Probe::Succ),
        5 => any::<u16>().prop_map(Probe::Pred),
        3 => (any::<u16>(), any::<u8>()).prop_map(|(i, l)| Probe::PrefixOf(i, l)),
        2 => (any::<u16>(), key_tiny()).prop_map(|(i, b)| Probe::Ext(i, b)),
        2 => (any::<u16>(), any::<u16>(), any::<u8>()).prop_map(|(i, p, b)| Probe::Mutate(i, p, b)),
        1 => Just(Probe::Empty),
        1 => Just(Probe::AfterLast),
        1 => Just(Probe::AllFF),
        2 => key_any().prop_map(Probe::Lit),
    ]
    .boxed()
}

pub fn cursor_op() -> BoxedStrategy<Op> {
    prop_oneof![
        3 => Just(Op::First),
        3 => Just(Op::Last),
        10 => Just(Op::Next),
        10 => Just(Op::Prev),
        6 => probe().prop_map(Op::Ge),
        6 => probe().prop_map(Op::Le),
        3 => probe().prop_map(Op::Eq),
        1 => Just(Op::Reset),
        3 => Just(Op::Current),
        1 => Just(Op::CloneSwitch),
        1 => Just(Op::Swap),
    ]
    .boxed()
}

/// Run-biased histories: bursts of next/prev interleaved with absolute moves.
pub fn history(max_len: usize) -> BoxedStrategy<Vec<Op>> {
    // a sweep: many consecutive seeks on neighbouring keys (same block), then a seek far away
    let sweep = (any::<u16>(), 6i8..=20, any::<bool>(), any::<u16>(), any::<bool>()).prop_map(|(base, n, eq, far, far_le)| {
        let mut v: Vec<Op> = (0..n)
            .map(|j| {
                let p = Probe::KeyOff(base, j);
                if eq && j % 2 == 1 {
                    Op::Eq(p)
                } else {
                    Op::Ge(p)
                }
            })
            .collect();
        v.push(if far_le { Op::Le(Probe::Key(far)) } else { Op::Ge(Probe::Key(far)) });
        v
    });
    let burst = prop_oneof![
        2 => sweep,
        1 => (1usize..=12).prop_map(|n| vec![Op::Next; n]),
        1 => (1usize..=12).prop_map(|n| vec![Op::Prev; n]),
        1 => (1usize..=40).prop_map(|n| vec![Op::Next; n]),
        1 => (1usize..=40).prop_map(|n| vec![Op::Prev; n]),
        3 => cursor_op().prop_map(|o| vec![o]),
    ];
    vec(burst, 1..=(max_len / 6).max(2))
        .prop_map(move |bs| {
            let mut v: Vec<Op> = bs.into_iter().flatten().collect();
            v.truncate(max_len);
            v
        })
        .boxed()
}
